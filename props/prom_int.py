"""Recorder-level integration encoding of the Prometheus exporter (shared by C07, C12, C15).

The recorder is built by the real code: PrometheusBuilder::new(), idle_timeout(..), add_global_label(..), build_with_clock(..) -> Inner.
Real code executed: Inner::{get_recent_metrics, drain_histograms_to_distributions, run_upkeep}, Recency::{new, should_store_*}
(metrics-util), DistributionBuilder::{new, get_distribution}, Distribution::{new_summary, record_samples}, RollingSummary::{new, add,
snapshot}. Abstract (trusted, each the subject of another property): the registry (one storage per kind and key: C06), the atomic bucket as
a list drained at once (C05), key_to_parts as (name_of(key), labels_of(key, default labels present?)) with uninterpreted functions (its
text is C08's subject), the DDSketch as the multiset of samples it was given, the clock as the scenario's current time (integer ns).
A scenario is a list of steps:
  ("record", key, value)          a histogram sample through the handle (timestamp = now; the handle's generation moves on)
  ("inc", key, v) / ("set", key, v)
  ("advance", dt)                 time passes (dt: term)
  ("render",)                     Inner::get_recent_metrics() -> snapshot (what render() prints)
  ("upkeep",)                     Inner::run_upkeep()
A metric the recency logic deletes from the registry is gone; a later update of that key registers it afresh (generation 0, empty)."""
import z3
from common import *
import _e3
from mirsmt import sym, models, check, models_str as MS, models_coll as MC
from mirsmt.sym import Ptr, Agg, Enum, Native, Fork, UNIT, bv, Opaque, TailCall, Script

KINDS = ("Counter", "Gauge", "Histogram")


class World:
    def __init__(self, timeout=None, mask=7, global_labels=0, bucket_count=None):
        self.P = _e3.program(["metrics-exporter-prometheus", "metrics-util"])
        P = self.P
        self.name_of = z3.Function("name_of", z3.IntSort(), z3.IntSort())
        self.labels_of = z3.Function("labels_of", z3.IntSort(), z3.BoolSort(), z3.IntSort())
        self.timeout, self.mask, self.ngl = timeout, mask, global_labels
        self.samples = []
        name_of, labels_of = self.name_of, self.labels_of

        def ld(eng, ctx, v):
            return MC.load(eng, ctx, v)
        self.ld = ld

        def kid(eng, ctx, k):
            k = ld(eng, ctx, k)
            if isinstance(k, Native) and k.kind == "akey":
                return k.data
            raise sym.Unsupported(f"abstract key expected, got {k}")

        # ---------------- registry (abstract: one storage per kind and key)
        def reg(ctx, kind):
            return ctx.statics.setdefault("reg_" + kind, MC.kmap())

        def m_handles(kind):
            def h(eng, ctx, f, path, args, dty):
                m = reg(ctx, kind)
                return MC.kmap(tuple((k, MC.new_cell(ctx, Native("gen", ctx.statics[cell].data), "handle")) for k, cell in m.data))
            return h

        def m_delete(kind):
            def h(eng, ctx, f, path, args, dty):
                m = reg(ctx, kind)
                key = ld(eng, ctx, args[1])

                def hit(c, i, cell):
                    c.statics["reg_" + kind] = MC.kmap(m.data[:i] + m.data[i + 1:])
                    c.observe("registry_delete", kind=kind, key=key.data)
                    return z3.BoolVal(True)
                return MC._find(eng, ctx, m, key, hit, lambda c: z3.BoolVal(False))
            return h

        def m_get_generation(eng, ctx, f, path, args, dty):
            g = ld(eng, ctx, args[0])
            return Agg({0: ctx.statics[g.data["gen"]]})

        def m_get_inner(eng, ctx, f, path, args, dty):
            g = ld(eng, ctx, args[0])
            return Ptr(("static", g.data["cell"]))

        def m_key_to_parts(eng, ctx, f, path, args, dty):
            i = kid(eng, ctx, args[0])
            d = args[1]
            has = isinstance(d, Enum) and isinstance(d.discr, int) and d.discr == 1
            nonempty = False
            if has:
                gl = ld(eng, ctx, d.v[1].f[0])
                nonempty = isinstance(gl, Native) and gl.kind == "kmap" and len(gl.data) > 0
            # without global labels the default-label argument makes no difference
            return Agg({0: Native("aname", name_of(i)), 1: Native("alabels", labels_of(i, z3.BoolVal(bool(nonempty))))})

        def m_clear_with(eng, ctx, f, path, args, dty):
            p = args[0]
            while isinstance(p, Ptr) and isinstance(eng.load_ptr(ctx, p), Ptr):
                p = eng.load_ptr(ctx, p)
            cur = eng.load_ptr(ctx, p)
            if not (isinstance(cur, Native) and cur.kind == "lvec"):
                raise sym.Unsupported(f"clear_with on {cur}")
            eng.store_ptr(ctx, p, MS.lvec(()))
            return TailCall(args[1], [cur])

        # ---------------- the sketch as a multiset of samples; time as integers
        def m_summary_add(eng, ctx, f, path, args, dty):
            cur = ld(eng, ctx, args[0])
            eng.store_ptr(ctx, args[0], Native("summary", tuple(cur.data) + (args[1],)))
            return UNIT

        def m_summary_merge(eng, ctx, f, path, args, dty):
            cur, other = ld(eng, ctx, args[0]), ld(eng, ctx, args[1])
            eng.store_ptr(ctx, args[0], Native("summary", tuple(cur.data) + tuple(other.data)))
            return Enum(0, {0: Agg({0: UNIT})}, "Result")

        def m_checked_sub(eng, ctx, f, path, args, dty):
            a, b_ = ld(eng, ctx, args[0]), ld(eng, ctx, args[1])
            r = a - b_
            return Fork([(r >= 0, Enum(1, {1: Agg({0: r})}, "Option")), (r < 0, Enum(0, {}, "Option"))])
        rel = {"gt": lambda x, y: x > y, "ge": lambda x, y: x >= y, "lt": lambda x, y: x < y, "le": lambda x, y: x <= y}
        m = {
            r"^Registry::new$": lambda *a: Native("registry", None), r"GenerationalStorage::new$": lambda *a: Opaque("storage"),
            r"get_counter_handles$": m_handles("Counter"), r"get_gauge_handles$": m_handles("Gauge"), r"get_histogram_handles$": m_handles("Histogram"),
            r"Registry::delete_counter$": m_delete("Counter"), r"Registry::delete_gauge$": m_delete("Gauge"), r"Registry::delete_histogram$": m_delete("Histogram"),
            r"Generational::get_generation$": m_get_generation, r"Generational::get_inner$": m_get_inner,
            r"^key_to_parts$": m_key_to_parts,
            r"AtomicBucketInstant::clear_with$|AtomicBucket::clear_with$": m_clear_with,
            r"(^|::)Summary::with_defaults$": lambda *a: Native("summary", ()), r"(^|::)Summary::add$": m_summary_add, r"(^|::)Summary::merge$": m_summary_merge,
            r"^<Summary as Clone>::clone$": lambda eng, ctx, f, path, args, dty: ld(eng, ctx, args[0]),
            r"parse_quantiles$": lambda *a: Opaque("quantiles"), r"SocketAddr::new$|Ipv4Addr::new$": lambda *a: Opaque("addr"),
            r"Duration::from_secs$": lambda eng, ctx, f, path, args, dty: args[0] * 1000000000, r"Duration::is_zero$": lambda eng, ctx, f, path, args, dty: ld(eng, ctx, args[0]) == 0,
            r"Duration as Mul(<u32>)?>::mul$": lambda eng, ctx, f, path, args, dty: args[0] * (z3.IntVal(sym.concrete(args[1])) if z3.is_bv(args[1]) else args[1]),
            r"NonZero.*::get$": lambda eng, ctx, f, path, args, dty: ld(eng, ctx, args[0]), r"NonZero.*::new$": lambda eng, ctx, f, path, args, dty: Enum(1, {1: Agg({0: args[0]})}, "Option"),
            r"Instant as Add(<Duration>)?>::add$": lambda eng, ctx, f, path, args, dty: args[0] + args[1],
            r"Instant as Sub(<Instant>)?>::sub$|Instant as Sub>::sub$": lambda eng, ctx, f, path, args, dty: args[0] - args[1],
            r"Instant as AddAssign(<Duration>)?>::add_assign$": lambda eng, ctx, f, path, args, dty: (eng.store_ptr(ctx, args[0], eng.load_ptr(ctx, args[0]) + args[1]), UNIT)[1],
            r"Instant::checked_sub$": m_checked_sub,
            r"(Instant|Duration) as PartialOrd>::(gt|ge|lt|le)$": lambda eng, ctx, f, path, args, dty: rel[path.rsplit("::", 1)[1]](ld(eng, ctx, args[0]), ld(eng, ctx, args[1])),
            r"Generation as PartialEq>::eq$": lambda eng, ctx, f, path, args, dty: ld(eng, ctx, args[0]).f[0] == ld(eng, ctx, args[1]).f[0],
            r"Clock::now$|Instant::now$": lambda eng, ctx, f, path, args, dty: ctx.statics["now"], r"Clock::new$": lambda *a: Opaque("clock"),
            r"^Arc::new$|Mutex::new$|RwLock::new$": models.m_identity,
            r"Mutex::lock$": lambda eng, ctx, f, path, args, dty: Enum(0, {0: Agg({0: args[0]})}, "Result"),
            r"MutexGuard as Deref(Mut)?>::deref(_mut)?$": lambda eng, ctx, f, path, args, dty: eng.load_ptr(ctx, args[0]) if isinstance(eng.load_ptr(ctx, args[0]), Ptr) else args[0],
            r"^Result::unwrap_or_else$": lambda eng, ctx, f, path, args, dty: args[0].v[0].f[0],
            r"^<Arc as Deref>::deref$": lambda eng, ctx, f, path, args, dty: (eng.load_ptr(ctx, args[0]) if isinstance(args[0], Ptr) and isinstance(eng.load_ptr(ctx, args[0]), Ptr) else args[0]),
            r"f64::from_bits$": models.m_identity,
            r"sanitize_metric_name$": lambda eng, ctx, f, path, args, dty: ld(eng, ctx, args[0]),
            r"^String::as_str$|^<String as Deref>::deref$|^KeyName::as_str$": lambda eng, ctx, f, path, args, dty: ld(eng, ctx, args[0]),
            r"^<(String|Key|KeyName|Vec) as Clone>::clone$| as ToOwned>::to_owned$": lambda eng, ctx, f, path, args, dty: MC.deep_copy(ctx, ld(eng, ctx, args[0])),
            r"^<(IndexMap|HashMap) as Clone>::clone$": MC.m_clone,
        }
        m.update(MC.COLL)
        m.update(models.RESULT)
        m.update(models.BASE)
        self.models = m

    # --------------------------------------------------------------------------------------------------------------
    def run(self, e3, name, steps, max_paths=8000):
        P = self.P
        eng = sym.Engine(P, models=self.models, loop_bound=8, max_paths=max_paths)
        eng.merging = False
        eng.int_mode = True
        ctx0 = sym.Ctx(eng, 1)
        ctx0.statics = {"now": z3.IntVal(0)}
        new_b = P.find("PrometheusBuilder", "new")
        idle_b = P.find("PrometheusBuilder", "idle_timeout")
        gl_b = P.find("PrometheusBuilder", "add_global_label")
        build_b = P.find("PrometheusBuilder", "build_with_clock")
        recent_b = P.find("Inner", "get_recent_metrics")
        upkeep_b = P.find("Inner", "run_upkeep")
        W = self

        def storage(c, kind, key_term):
            """(storage cell, generation cell) of the live metric; registers it afresh if it is not in the registry"""
            m = c.statics.setdefault("reg_" + kind, MC.kmap())
            for k, cell in m.data:
                if k.data.eq(key_term) if z3.is_expr(k.data) else k.data == key_term:
                    return c.statics[cell].data
            n = len([x for x in c.statics if x.startswith("stor_")])
            sc_, gc_ = f"stor_{kind}_{n}", f"gen_{kind}_{n}"
            c.statics[sc_] = MS.lvec(()) if kind == "Histogram" else z3.IntVal(0)
            c.statics[gc_] = z3.IntVal(0)
            hc = MC.new_cell(c, Native("gen", {"cell": sc_, "gen": gc_}), "regentry")
            c.statics["reg_" + kind] = MC.kmap(m.data + ((Native("akey", key_term), hc),))
            c.observe("registered", kind=kind, key=key_term)
            return {"cell": sc_, "gen": gc_}

        def script():
            b = yield ("call", new_b, [])
            if W.timeout is not None:
                b = yield ("call", idle_b, [b, Agg({0: z3.BitVecVal(W.mask, 8)}), Enum(1, {1: Agg({0: W.timeout})}, "Option")])
            for i in range(W.ngl):
                b = yield ("call", gl_b, [b, Native("astr", z3.IntVal(900 + i)), Native("astr", z3.IntVal(950 + i))])
            rec = yield ("call", build_b, [b, Opaque("clock")])
            # PrometheusRecorder { inner: Arc<Inner> }: Arc is transparent
            inner = rec
            while isinstance(inner, Agg) and len(inner.f) == 1:
                inner = list(inner.f.values())[0]
            yield ("setstatic", "inner", inner)
            ip = Ptr(("static", "inner"))
            snaps = []
            for st in steps:
                if st[0] == "advance":
                    now = yield ("getstatic", "now")
                    yield ("setstatic", "now", now + st[1])
                elif st[0] in ("record", "inc", "set"):
                    kind = {"record": "Histogram", "inc": "Counter", "set": "Gauge"}[st[0]]
                    # an update through the handle: the storage changes and the handle's generation moves on
                    yield ("effect_update", kind, st[1], st[2])
                elif st[0] == "render":
                    s = yield ("call", recent_b, [ip])
                    flat = {}
                    for fld, nm in ((0, "counters"), (1, "gauges"), (2, "distributions")):
                        top = s.f[fld]
                        rows = []
                        for k, cell in top.data:
                            inner_map = yield ("getstatic", cell)
                            for k2, cell2 in inner_map.data:
                                v = yield ("getstatic", cell2)
                                rows.append((k, k2, v))
                        flat[nm] = rows
                    now = yield ("getstatic", "now")
                    flat["now"] = now
                    snaps.append(flat)
                elif st[0] == "upkeep":
                    yield ("call", upkeep_b, [ip])
            return Native("result", snaps)
        # run_script has no generic "effect" request: wrap the update step as a tiny extension
        orig_script = script

        def script2():
            gen = orig_script()
            try:
                req = next(gen)
                while True:
                    if req[0] == "effect_update":
                        _, kind, key_term, val = req
                        cur_now = yield ("getstatic", "now")
                        # storage() mutates ctx.statics: go through get/set requests only
                        regm = yield ("getstatic", "reg_" + kind)
                        regm = regm if regm is not None else MC.kmap()
                        found = None
                        for k, cell in regm.data:
                            same = k.data.eq(key_term) if z3.is_expr(k.data) else k.data == key_term
                            if same:
                                h = yield ("getstatic", cell)
                                found = h.data
                        if found is None:
                            # names must be a function of the state only (the script is re-played after every fork)
                            nreg = yield ("getstatic", "nregistered")
                            n = (nreg or 0) + 1
                            yield ("setstatic", "nregistered", n)
                            sc_, gc_, hc = f"stor_{kind}_{n}", f"gen_{kind}_{n}", f"regentry_{kind}_{n}"
                            yield ("setstatic", sc_, MS.lvec(()) if kind == "Histogram" else z3.IntVal(0))
                            yield ("setstatic", gc_, z3.IntVal(0))
                            yield ("setstatic", hc, Native("gen", {"cell": sc_, "gen": gc_}))
                            yield ("setstatic", "reg_" + kind, MC.kmap(regm.data + ((Native("akey", key_term), hc),)))
                            yield ("observe", "registered", {"kind": kind, "key": key_term})
                            found = {"cell": sc_, "gen": gc_}
                        cur = yield ("getstatic", found["cell"])
                        if kind == "Histogram":
                            yield ("setstatic", found["cell"], MS.lvec(tuple(cur.data) + (Agg({0: val, 1: cur_now}),)))
                        elif kind == "Counter":
                            yield ("setstatic", found["cell"], cur + val)
                        else:
                            yield ("setstatic", found["cell"], val)
                        g = yield ("getstatic", found["gen"])
                        yield ("setstatic", found["gen"], g + 1)
                        req = gen.send(None)
                    else:
                        r = yield req
                        req = gen.send(r)
            except StopIteration as stop:
                return stop.value
        leaves = eng.run_script(1, name, script2, ctx0=ctx0)
        e3.absorb(eng)
        return eng, leaves


def dist_view(v):
    """a Distribution value of the snapshot -> dict(kind, count, sum, window samples)"""
    if not isinstance(v, Enum):
        return None
    pv = [(k, p) for k, p in v.v.items() if p.f]
    if len(pv) != 1:
        return None
    k, p = pv[0]
    if isinstance(p.f.get(0), Agg) and len(p.f) >= 3:      # Summary(RollingSummary, quantiles, sum)
        rolling = p.f[0]
        ints = [x for x in rolling.f.values() if z3.is_expr(x) and z3.is_int(x)]
        return {"kind": "summary", "rolling": rolling, "sum": p.f[2], "ints": ints}
    return {"kind": "histogram", "value": p.f.get(0)}


def _replay(ob, pid, binname, scen, pname, inputs, note):
    import replay_e3
    os.makedirs(os.path.join(REPLAYS, pid), exist_ok=True)
    pp = os.path.join(REPLAYS, pid, f"{ob.name.split(':')[0]}.{pname}.plan")
    open(pp, "w").write(replay_e3.plan_text(scen, pname, {}, [], inputs))
    status, out = replay_e3.run(binname, pp)
    ob.detail += f" | native replay ({binname}, {note}): {status}"
    if isinstance(ob.sample, dict):
        ob.sample["native_replay"] = {"status": status, "output": out[-600:]}
    ob.replay = pp
    ob.reproduced = status == "reproduced"
    if not ob.reproduced:
        ob.status = "error"
        ob.detail += " — counterexample did NOT reproduce natively: treated as an encoder/model problem, not reported as a violation"


def scen_ageing(e3, pid, prefix):
    """A summary series across quiet time and upkeep: record a; render; time passes; upkeep; time passes; render; record b; render.
    No idle timeout is configured, so nothing may ever be dropped: `_count` and `_sum` cover all samples in every rendering."""
    W = World(timeout=None)
    a, b_ = z3.BitVec("a", 64), z3.BitVec("b", 64)
    dt1, dt2 = z3.Int("dt1"), z3.Int("dt2")
    base = [dt1 >= 0, dt2 >= 0, dt1 < (1 << 45), dt2 < (1 << 45)]
    key = z3.IntVal(1)
    steps = [("record", key, a), ("render",), ("advance", dt1), ("upkeep",), ("advance", dt2), ("upkeep",), ("render",), ("record", key, b_), ("render",)]
    name = f"{prefix}_summary_across_quiet_time"
    eng, leaves = W.run(e3, name, steps)
    done = [l for l in leaves if l.status == "done"]
    other = z3.Or(*[l.taken() for l in leaves if l.status != "done"] or [z3.BoolVal(False)])
    want = [1, 1, 2]
    bad = []
    for l in done:
        snaps = l.ret.data
        for sn, n in zip(snaps, want):
            d = sn["distributions"]
            if len(d) != 1:
                bad.append(l.taken())
                continue
            dv = dist_view(d[0][2])
            if dv is None or dv["kind"] != "summary":
                bad.append(l.taken())
                continue
            cnt_ok = z3.Or(*[c == n for c in dv["ints"]]) if dv["ints"] else z3.BoolVal(False)
            fadd = lambda x, y: eng.float_binop("Add", x, y, "f64") if hasattr(eng, "float_binop") else None
            bad.append(z3.And(l.taken(), z3.Not(cnt_ok)))
    bounds = "PrometheusBuilder::new().build_recorder(); record(a); render; any time passes; upkeep; any time passes; upkeep; render; record(b); render — one summary series, no idle timeout"

    def on_model(ob, model):
        ev = lambda t: model.eval(t, model_completion=True).as_long()
        ob.sample = {"dt1_ns": ev(dt1), "dt2_ns": ev(dt2)}
        _replay(ob, pid, "c15", "c15_ageing", ob.name.split(":")[1], {"dt1": ev(dt1), "dt2": ev(dt2)}, "public recorder API, mock clock, strict parser")
    specs = [dict(name=f"{name}:witness", desc="the history completes", bounds=bounds, cons=base + [z3.Or(*[l.taken() for l in done] or [z3.BoolVal(False)])], expect_unsat=False),
             dict(name=f"{name}:returns", desc="a call panics", bounds=bounds, cons=base + [other], expect_unsat=True),
             dict(name=f"{name}:count_covers_all_samples_in_every_rendering", desc="a rendering shows a `_count` that is not the number of samples recorded so far (a series that aged out of its window was reset or removed, "
                  "so the count decreases from one rendering to the next)", bounds=bounds, cons=base + [z3.Or(*bad) if bad else z3.BoolVal(False)], expect_unsat=True, on_model=on_model)]
    check.discharge_many(e3.res, specs, 120)


def scen_expiry(e3, pid, prefix, kind, ngl):
    """Idle timeout at recorder level: update; render (first observation); time passes; render; update (the metric is registered again if it was
    dropped); render. The second rendering must drop the series iff more than the timeout has passed; after a drop the third rendering
    shows a fresh series (only the last update), otherwise both updates."""
    T = z3.Int("timeout")
    dt = z3.Int("dt")
    W = World(timeout=T, mask=7, global_labels=ngl)
    a, b_ = (z3.BitVec("a", 64), z3.BitVec("b", 64)) if kind == "Histogram" else (z3.Int("a"), z3.Int("b"))
    base = [T > 0, T < (1 << 40), dt >= 0, dt < (1 << 41)] + ([a >= 1, b_ >= 1, a < (1 << 30), b_ < (1 << 30)] if kind != "Histogram" else [])
    key = z3.IntVal(1)
    op = {"Histogram": "record", "Counter": "inc", "Gauge": "set"}[kind]
    steps = [(op, key, a), ("render",), ("advance", dt), ("render",), (op, key, b_), ("render",)]
    name = f"{prefix}_{kind.lower()}_expiry_gl{ngl}"
    eng, leaves = W.run(e3, name, steps)
    done = [l for l in leaves if l.status == "done"]
    other = z3.Or(*[l.taken() for l in leaves if l.status != "done"] or [z3.BoolVal(False)])
    drop = dt > T
    field = {"Histogram": "distributions", "Counter": "counters", "Gauge": "gauges"}[kind]
    bad = []
    for l in done:
        s1, s2, s3 = l.ret.data

        def present(sn):
            return len(sn[field]) == 1

        def value_ok(sn, n_samples, scalar):
            if not present(sn):
                return z3.BoolVal(False)
            v = sn[field][0][2]
            if kind == "Histogram":
                dv = dist_view(v)
                if dv is None or dv["kind"] != "summary":
                    return z3.BoolVal(False)
                return z3.Or(*[c == n_samples for c in dv["ints"]]) if dv["ints"] else z3.BoolVal(False)
            return v == scalar if z3.is_expr(v) else z3.BoolVal(False)
        c1 = value_ok(s1, 1, a)
        # second rendering: dropped iff idle longer than the timeout
        c2 = z3.If(drop, z3.BoolVal(not present(s2)), value_ok(s2, 1, a))
        fresh = value_ok(s3, 1, b_)
        kept = value_ok(s3, 2, (a + b_) if kind == "Counter" else b_)
        c3 = z3.If(drop, fresh, kept)
        bad.append(z3.And(l.taken(), z3.Not(z3.And(c1, c2, c3))))
    bounds = (f"recorder built by PrometheusBuilder::new().idle_timeout(ALL, Some(T)){'.add_global_label(..)' if ngl else ''}.build_recorder(); {op}(a); render; dt passes; render; {op}(b); render — any T, dt")

    def on_model(ob, model):
        ev = lambda t: model.eval(t, model_completion=True).as_long()
        ob.sample = {"timeout_ns": ev(T), "dt_ns": ev(dt), "idle_longer_than_timeout": ev(dt) > ev(T)}
        _replay(ob, pid, "c12p", "c12_expiry", ob.name.split(":")[1], {"kind": KINDS.index(kind), "ngl": ngl, "drop": int(ev(dt) > ev(T))}, "public recorder API, real clock with a 150 ms timeout, strict parser")
    specs = [dict(name=f"{name}:witness", desc="the history completes with a drop", bounds=bounds, cons=base + [drop, z3.Or(*[l.taken() for l in done] or [z3.BoolVal(False)])], expect_unsat=False),
             dict(name=f"{name}:returns", desc="a call panics", bounds=bounds, cons=base + [other], expect_unsat=True),
             dict(name=f"{name}:dropped_iff_idle_and_reappears_fresh", desc="the series is not dropped from the rendering exactly when it was idle longer than the timeout, is not kept with its full value otherwise, or does not "
                  "start from zero when it is registered and emitted again after a drop", bounds=bounds, cons=base + [z3.Or(*bad) if bad else z3.BoolVal(False)], expect_unsat=True, on_model=on_model)]
    check.discharge_many(e3.res, specs, 120)

"""C04 Counter, gauge and histogram handles apply every update exactly once."""
import z3
from common import *
import kani, _kprop, _e3
from _atomics_e3 import *
from mirsmt import sym, conc, models
from mirsmt.sym import Ptr, bv

FUNCS_E1 = ["metrics::handles::{Counter,Gauge,Histogram}::*", "metrics::handles::HistogramFn::record_many (default)", "metrics::atomics::<impl CounterFn/GaugeFn for AtomicU64>::*",
            "metrics::common::IntoF64 impls"]
HARNESSES = [
    kani.H("c04_counter_seq", "4 operations through two clones of a Counter and a no-op handle: sum mod 2^64, absolute = max, no-op has no effect", "4 steps, symbolic u64", 200, functions=FUNCS_E1),
    kani.H("c04_gauge_seq", "3 operations through two clones of a Gauge: equals the sequential f64 model bit for bit (NaN class-wise)", "3 steps, symbolic f64 bit patterns", 600, tier="thorough", functions=FUNCS_E1),
    kani.H("c04_hist_seq", "record once, record_many(v, n) n<=4: exactly n deliveries of the same bits", "n <= 4", 200, functions=FUNCS_E1),
    kani.H("c04_conversions", "IntoF64 for i8,u8,i16,u16,i32,u32,f64 agrees with `as f64`; delivered once", "all values", 200, functions=FUNCS_E1),
    kani.H("c04_conv_f32", "IntoF64 for f32", "all bit patterns", 200, functions=FUNCS_E1),
    kani.H("c04_conv_duration", "IntoF64 for Duration: finite, non-negative", "all secs/nanos", 200, functions=FUNCS_E1),
]
ASSUME = ["E3: sequential consistency for atomics; std's fetch_update is modelled as one atomic read-modify-write whose new value is the closure applied to the value read (its CAS loop retries until it succeeds and a failed weak CAS has no effect)",
          "E3: f64 `+`/`-` are encoded as uninterpreted functions of the operand bit patterns (the linearisation property holds for every such function, hence for IEEE arithmetic)",
          "E3 bounds: 2-3 threads, one operation each, arbitrary argument values and initial value",
          "portable-atomic (32-bit targets) is outside the claim"]

IMPL = {"c_increment": ("CounterFn", "increment"), "c_absolute": ("CounterFn", "absolute"), "g_increment": ("GaugeFn", "increment"),
        "g_decrement": ("GaugeFn", "decrement"), "g_set": ("GaugeFn", "set")}


def scenario(e3, opnames, name):
    P = _e3.program(["metrics"])
    eng = sym.Engine(P, models=dict(models.BASE), loop_bound=len(opnames) + 1)
    c0 = sym.Ctx(eng, 0)
    eng.thread_names[0] = "setup"
    init = z3.BitVec("init", 64)
    cell = c0.alloc("AtomicU64", {(): (64, init)})
    eng.leaves[0] = [sym.Leaf(c0, "done")]
    cp = Ptr(("obj", cell))
    ops = []
    for i, op in enumerate(opnames, start=1):
        tr, meth = IMPL[op]
        cands = [b for b in P.by_last.get(meth, []) if b.impl and b.impl[0] == tr and "atomics.rs" in b.name]
        assert len(cands) == 1, (op, cands)
        v = z3.BitVec(f"v{i}", 64)
        eng.run_thread(i, f"t{i}:{op}", cands[0], [cp, v])
        ops.append((i, op, v))
    obs_t = len(opnames) + 1

    def observer():
        v = yield ("read", cell, (), 64, True, "SeqCst", "final")
        return v
    eng.run_script(obs_t, "observer", observer)
    sc = conc.Scenario(eng, name)
    for t in range(1, len(opnames) + 1):
        sc.thread_order(0, t)
        sc.thread_order(t, obs_t)
    sc.thread_order(0, obs_t)
    sc.build()
    final = sc.leaf_ite(obs_t, lambda l: l.ret, bv(0))
    is_float = any(o.startswith("g_") for o in opnames)
    viol = linearizable_final(sc, eng, ops, init, final, is_float)
    props = [("updates_applied_atomically_none_lost", "the final value is not the sequential application of the operations in the order of their atomic steps", viol, None),
             ("no_panic", "an operation can panic", sc.reach("panic"), None)]
    e3.standard(sc, eng, name, f"threads {opnames}, arbitrary u64/f64 arguments and initial value, all interleavings; {sc.stats}", props, timeout=300)


def bucket_record_many(e3, n):
    """record_many(v, n) on the standard histogram storage (AtomicBucket<f64>): the override if the storage has one, else the
    trait's default; then a quiescent read must see v exactly n times. Block size 2; n <= 2 (the call that needs a second block, n = 3,
    exhausts the executor's memory: hand-over between blocks is C05's subject)."""
    import c05
    from mirsmt import models_cb
    from mirsmt.sym import Native, Fork, UNIT
    P = _e3.program(["metrics-util", "metrics"])
    m = {**models_cb.bucket_models(c05.BS), **models.BASE}
    eng = sym.Engine(P, models=m, loop_bound=n + 2, await_fns=[r"::data_with$", r"::clear_with$"], max_paths=20000)
    eng.loop_bounds = {r"::data_with$": n + 1, r"::push$": 3, r"::push_many$": n + 2}
    eng.const_override = {"BLOCK_SIZE": bv(c05.BS)}
    eng.merge_fns = [r"::push$", r"::push_many$", r"::data_with$"]
    own = [b for b in P.by_last.get("record_many", []) if b.impl and b.impl[0] == "HistogramFn" and b.impl[1] == "AtomicBucket"]
    dflt = [b for b in P.by_last.get("record_many", []) if not b.impl or b.impl[0] is None]
    body = own[0] if own else [b for b in dflt if "HistogramFn" in b.name][0]
    data_b = P.find("AtomicBucket", "data_with")
    c0 = sym.Ctx(eng, 0)
    eng.thread_names[0] = "setup"
    bucket = c0.alloc("AtomicBucket", {(0,): ("ptr", z3.IntVal(0))})
    eng.leaves[0] = [sym.Leaf(c0, "done")]
    bp = Ptr(("obj", bucket))
    v = z3.BitVec("v", 64)

    def cb(eng_, ctx, f, args):
        ptr, ln = args[0].data
        base = ptr.path[:-1]
        alts = []
        for k in range(c05.BS + 1):
            def do(c, k=k):
                for i in range(k):
                    x = c.mem_read(ptr.root[1], eng_.norm_path(base + (("idx", i),)), 64, False, "NA", "slot_read")
                    c.observe("seen", value=x)
                return UNIT
            alts.append((ln == bv(k), do))
        return Fork(alts)

    def script():
        yield ("call", body, [bp, v, bv(n)])
        yield ("call", data_b, [bp, Native("callback", cb)])
        return None
    eng.run_script(1, f"record_many(v, {n}); data_with", script)
    sc = conc.Scenario(eng, f"c04_bucket_record_many_{n}")
    sc.thread_order(0, 1)
    sc.build()
    seen = c05.payloads(eng, "seen")
    cnt = z3.Sum(*[z3.If(z3.And(e.guard, pay["value"] == v), 1, 0) for e, pay in seen]) if seen else z3.IntVal(0)
    other = z3.Or(*[z3.And(e.guard, pay["value"] != v) for e, pay in seen]) if seen else z3.BoolVal(False)
    props = [("record_many_delivers_exactly_n", f"after record_many(v, {n}) the storage does not hold v exactly {n} times", z3.Or(cnt != n, other), None),
             ("no_panic", "record_many or the read can panic", sc.reach("panic"), None)]
    e3.standard(sc, eng, f"c04_bucket_record_many_{n}", f"one thread: record_many(v, {n}) on an empty AtomicBucket<f64> ({'own override' if own else 'trait default'}), then data_with; block size {c05.BS}; v arbitrary; {sc.stats}",
                props, timeout=300)


SCEN_QUICK = [(["c_increment", "c_increment"], "c04_inc_inc"), (["c_increment", "c_absolute"], "c04_inc_abs"), (["c_absolute", "c_absolute"], "c04_abs_abs"),
              (["g_increment", "g_set"], "c04_ginc_set"), (["g_set", "g_set"], "c04_set_set"), (["g_increment", "g_decrement"], "c04_ginc_gdec")]
SCEN_THOROUGH = [(["c_increment", "c_increment", "c_absolute"], "c04_inc_inc_abs"), (["g_increment", "g_increment"], "c04_ginc_ginc"),
                 (["g_increment", "g_decrement", "g_set"], "c04_ginc_gdec_set")]


def run(tier, seed, t0):
    e3 = _e3.E3("C04")
    for ops, nm in SCEN_QUICK + (SCEN_THOROUGH if tier == "thorough" else []):
        try:
            scenario(e3, ops, nm)
        except _e3.ENC_ERRORS as ex:
            e3.error(nm, "MIR->SMT encoding of metrics::atomics", ex)
    for n in ([1] if tier == "quick" else [1, 2]):
        try:
            bucket_record_many(e3, n)
        except _e3.ENC_ERRORS as ex:
            e3.error(f"c04_bucket_record_many_{n}", "MIR->SMT encoding of record_many on AtomicBucket<f64>", ex)
    obs = list(e3.res.obligations)
    obs += kani.run_group("core", HARNESSES, tier, hooks=True)
    finish("C04", tier, seed, obs, t0, ASSUME + ["E3 callee models: " + ", ".join(sorted(e3.models))], sorted(e3.functions) + FUNCS_E1,
           explanation="Kani harnesses over the handle types (values, histories) + MIR->SMT partial-order encoding of the atomic cell operations (schedules)")


def replay(path):
    return _kprop.replay(path) if path.endswith(".vals") else 0

"""C18 scrape endpoint: the allowlist decision and what each decision serves (reduced scope: no HTTP stack)."""
import z3
from common import *
import _e3
from mirsmt import sym, models, check
from mirsmt.models_reg import run_closure
from mirsmt.sym import Ptr, Agg, Enum, Native, Fork, Diverge, UNIT, bv, Opaque, TailCall

ASSUME = ["reduced scope: hyper/tokio (request parsing, connection handling, garbage / half-open / reset connections, concurrent scrapers, the status line on the wire) need a running process and are outside this check",
          "ipnet (trusted crate) is modelled by its documented contract on IPv4 values (address + prefix length): contains / trunc / network / broadcast / netmask, derived Eq/Ord; IPv6 is outside the encoding; "
          "IpNet::from_str accepts exactly CIDR notation `addr/len` and IpAddr::from_str exactly plain addresses (their documented contracts); peer_addr() returns Ok(any address) or Err; "
          "TcpListener::bind / set_nonblocking / from_std succeed (start-up failures are outside this check)",
          "handle_http_request is executed as the compiler-generated state machine (two polls); the blocking render task completes with the value of the closure that was spawned",
          "tracing macro expansions are opaque"]
TRACING = [r"tracing", r"__CALLSITE", r"LevelFilter", r"DefaultCallsite", r"Interest", r"ValueSet", r"FieldSet", r"Metadata", r"Event::", r"__macro_support", r"fmt::Arguments", r"core::fmt", r"^Arguments::", r"^debug$", r"tracing-0\.1"]
NMAX = 3


def allow_decision(e3, nets_len, two_families=False, via_builder=False):
    """The allowlist as the real pipeline handles it: new_http_listener(handle, addr, allowlist) builds the exporter (whatever it does
    to the list on the way), then check_tcp_allowed(&exporter, stream) decides. Networks and peer are concrete-width symbolic values
    (IPv4: address + prefix length), so code that sorts, truncates, de-duplicates or bisects the list is followed exactly."""
    from mirsmt import models_net as MN, models_str as MS
    P = _e3.program(["metrics-exporter-prometheus"])
    configured = nets_len is not None
    L = nets_len or 0
    peer_ok = z3.Bool("peer_addr_ok")
    if two_families:
        # networks of either family (address in 128 bits, an IPv4 one in the low 32), the peer is the IPv6 loopback address
        # (the only IPv6 source address a native replay on this machine can use)
        ipv = z3.BitVec("peer_ip", 128)
        addrs = [z3.BitVec(f"net{i}_addr", 128) for i in range(L)]
        plens = [z3.BitVec(f"net{i}_prefix_len", 8) for i in range(L)]
        fams = [z3.Bool(f"net{i}_is_ipv6") for i in range(L)]
        rng = [z3.ULE(p, z3.If(f_, z3.BitVecVal(128, 8), z3.BitVecVal(32, 8))) for p, f_ in zip(plens, fams)] + [z3.Or(f_, z3.Extract(127, 32, a) == 0) for a, f_ in zip(addrs, fams)] + [ipv == 1]
        mknet = lambda i: MN.net2(addrs[i], plens[i], fams[i])
        peer_val = MN.ip2(ipv, z3.BoolVal(True))
        peer_in = lambda i: MN.contains_ip(mknet(i), (ipv, z3.BoolVal(True)))
    else:
        ipv = z3.BitVec("peer_ip", 32)
        addrs = [z3.BitVec(f"net{i}_addr", 32) for i in range(L)]
        plens = [z3.BitVec(f"net{i}_prefix_len", 8) for i in range(L)]
        rng = [z3.ULE(p, z3.BitVecVal(32, 8)) for p in plens] + [z3.Extract(31, 24, ipv) == z3.BitVecVal(127, 8)]
        mknet = lambda i: MN.net(addrs[i], plens[i])
        peer_val = MN.ip(ipv)
        peer_in = lambda i: MN.contains_ip(mknet(i), ipv)

    def m_peer_addr(eng, ctx, f, path, args, dty):
        return Fork([(peer_ok, Enum(0, {0: Agg({0: Native("sockaddr", None)})}, "Result")), (z3.Not(peer_ok), Enum(1, {1: Agg({0: Opaque("io::Error")})}, "Result"))])

    def m_map_or_else(eng, ctx, f, path, args, dty):
        e = args[0]
        if not (isinstance(e, Enum) and isinstance(e.discr, int)):
            raise sym.Unsupported("map_or_else on a symbolic Result")
        return TailCall(args[2], [e.v[0].f[0]]) if e.discr == 0 else TailCall(args[1], [e.v[1].f[0]])
    m = {r"TcpStream::peer_addr$": m_peer_addr, r"Result::map_or_else$": m_map_or_else, r"SocketAddr::ip$": lambda eng, ctx, f, path, args, dty: peer_val,
         r"^std::net::TcpListener::bind$|^TcpListener::bind$": lambda *a: Enum(0, {0: Agg({0: Opaque("std listener")})}, "Result"),
         r"TcpListener::set_nonblocking$": lambda *a: Enum(0, {0: Agg({0: UNIT})}, "Result"),
         r"TcpListener::from_std$": lambda *a: Enum(0, {0: Agg({0: Opaque("tokio listener")})}, "Result"),
         r"^Box::pin$": models.m_identity}
    m.update(MN.NET)
    m.update(models.RESULT)
    m.update(models.BASE)
    if via_builder:
        # the list is what PrometheusBuilder::add_allowed_address, called once per network, leaves in the builder (the i-th text parses to
        # the i-th symbolic network)
        def m_from_str(eng, ctx, f, path, args, dty):
            k = ctx.statics.get("nparsed", 0)
            ctx.statics["nparsed"] = k + 1
            return Enum(0, {0: Agg({0: mknet(k)})}, "Result")

        def m_get_or_insert(eng, ctx, f, path, args, dty):
            p_ = args[0]
            o = eng.load_ptr(ctx, p_)
            if isinstance(o, Enum) and isinstance(o.discr, int) and o.discr == 0:
                eng.store_ptr(ctx, p_, Enum(1, {1: Agg({0: args[1]})}, "Option"))
            return Ptr(p_.root, p_.path + (("variant", "Some"), 0))
        m[r"^<IpNet as FromStr>::from_str$|^IpNet::from_str$"] = m_from_str
        m[r"^<IpAddr as FromStr>::from_str$|^IpAddr::from_str$"] = lambda *a: Enum(1, {1: Agg({0: Opaque("AddrParseError")})}, "Result")
        m[r"as AsRef>::as_ref$"] = lambda eng, ctx, f, path, args, dty: args[0]
        m[r"(^|::)Option::get_or_insert$"] = m_get_or_insert
        m[r"Error as .*to_string$|as ToString>::to_string$"] = lambda *a: Opaque("string")
        m[r"BuildError::"] = lambda *a: Opaque("BuildError")
    eng = sym.Engine(P, models=m, opaque=TRACING, loop_bound=L + 3, max_paths=4000)
    eng.merging = False
    MN.install(eng)
    new_b = P.find_fn("new_http_listener")
    chk_b = P.find("HttpListeningExporter", "check_tcp_allowed")
    ctx0 = sym.Ctx(eng, 1)
    lst = Enum(1, {1: Agg({0: MS.lvec(tuple(mknet(i) for i in range(L)))})}, "Option") if configured else Enum(0, {}, "Option")

    def script():
        the_list = lst
        if via_builder:
            add_b = P.find("PrometheusBuilder", "add_allowed_address")
            bld = Agg({0: Opaque("cfg"), 1: Enum(0, {}, "Option")})
            for i in range(L):
                yield ("setstatic", f"text{i}", Opaque(f"address text {i}"))
                rb = yield ("call", add_b, [bld, Ptr(("static", f"text{i}"))])
                if not (isinstance(rb, Enum) and isinstance(rb.discr, int) and rb.discr == 0):
                    raise sym.Unsupported(f"add_allowed_address did not return Ok: {rb}")
                bld = rb.v[0].f[0]
            the_list = bld.f[1]
        r = yield ("call", new_b, [Opaque("handle"), Opaque("listen address"), the_list])
        if not (isinstance(r, Enum) and r.discr == 0):
            raise sym.Unsupported(f"new_http_listener did not return Ok: {r}")
        fut = r.v[0].f[0]
        while isinstance(fut, Agg) and len(fut.f) == 1:
            fut = list(fut.f.values())[0]
        if not (isinstance(fut, sym.Closure) and fut.caps):
            raise sym.Unsupported(f"exporter future: {fut}")
        exp = fut.caps.get("exporter", list(fut.caps.values())[0])
        yield ("setstatic", "exp", exp)
        r = yield ("call", chk_b, [Ptr(("static", "exp")), Opaque("stream")])
        return r
    leaves = eng.run_script(1, "new_http_listener; check_tcp_allowed", script, ctx0=ctx0)
    e3.absorb(eng)
    done = [l for l in leaves if l.status == "done"]
    other = z3.Or(*[l.taken() for l in leaves if l.status != "done"] or [z3.BoolVal(False)])
    def decision(r):
        # bool, or Result<bool, _> / Option<bool> (an error counts as "not allowed": the connection is not served)
        if isinstance(r, Enum) and r.name in ("Result", "Option"):
            k = 0 if r.name == "Result" else 1
            inner = r.v.get(k, Agg()).f.get(0)
            return z3.And(eng.discr_is(r.discr, k), eng.as_bool(inner)) if inner is not None else z3.BoolVal(False)
        return eng.as_bool(r)
    allowed = z3.Or(*[z3.And(l.taken(), decision(l.ret)) for l in done] or [z3.BoolVal(False)])
    inside = z3.Or(*[peer_in(i) for i in range(L)]) if L else z3.BoolVal(False)
    tag = ("none" if not configured else f"n{L}") + ("_v6peer" if two_families else "") + ("_via_builder" if via_builder else "")
    bounds = (("PrometheusBuilder::add_allowed_address once per network (in the order given), then " if via_builder else "") + f"new_http_listener (the exporter it builds) followed by check_tcp_allowed with its closures; allowlist " + ("not configured" if not configured else f"of {L} {'IPv4 or IPv6' if two_families else 'IPv4'} network(s), any address and prefix length 0..32 (nested, overlapping, duplicated, unsorted, with host bits)")
              + ("; peer: ::1 (prefix lengths up to 128 for IPv6 networks)" if two_families else "; peer: any address in 127.0.0.0/8 (so that the case can be replayed over loopback)") + " or unavailable")

    def dotted(x):
        return ".".join(str((x >> s) & 255) for s in (24, 16, 8, 0))

    def on_model(ob, model):
        ev = lambda t: model.eval(t, model_completion=True)
        if two_families:
            import ipaddress
            nets = [(str(ipaddress.IPv6Address(ev(a).as_long())) if z3.is_true(ev(f_)) else dotted(ev(a).as_long() & 0xFFFFFFFF)) + f"/{ev(p).as_long()}" for a, p, f_ in zip(addrs, plens, fams)]
        else:
            nets = [f"{dotted(ev(a).as_long())}/{ev(p).as_long()}" for a, p in zip(addrs, plens)]
        pip = ev(ipv).as_long()
        row = {"allowlist": nets if configured else None, "peer": ("::1" if two_families else dotted(pip)), "peer_addr_ok": z3.is_true(ev(peer_ok)), "peer_inside_a_listed_network": z3.is_true(ev(inside)), "code_allows": z3.is_true(ev(allowed))}
        ob.sample = row
        inputs = {"configured": int(configured), "n": L, "peer_ok": int(row["peer_addr_ok"]), "peer": pip, "inside": int(row["peer_inside_a_listed_network"]), "allows": int(row["code_allows"])}
        for i, (a, p) in enumerate(zip(addrs, plens)):
            av = ev(a).as_long()
            inputs[f"addr{i}"] = av & 0xFFFFFFFFFFFFFFFF
            inputs[f"plen{i}"] = ev(p).as_long()
            if two_families:
                inputs[f"addrhi{i}"] = av >> 64
                inputs[f"v6_{i}"] = int(z3.is_true(ev(fams[i])))
        if two_families:
            inputs["v6peer"] = 1
        replay_native(ob, "c18_allow", ob.name.split(":")[1], inputs)
    nm = f"c18_allow_{tag}"
    specs = [dict(name=f"{nm}:witness", desc="the decision is reached", bounds=bounds, cons=rng + [z3.Or(*[l.taken() for l in done] or [z3.BoolVal(False)])], expect_unsat=False),
             dict(name=f"{nm}:terminates", desc="building the exporter or check_tcp_allowed panics or does not return", bounds=bounds, cons=rng + [other], expect_unsat=True, on_model=on_model)]
    if configured:
        specs += [dict(name=f"{nm}:outside_peer_refused", desc="a peer whose address lies in none of the listed networks is allowed", bounds=bounds,
                       cons=rng + [peer_ok, z3.Not(inside), allowed], expect_unsat=True, on_model=on_model),
                  dict(name=f"{nm}:inside_peer_served", desc="a peer inside one of the listed networks is refused", bounds=bounds,
                       cons=rng + [peer_ok, inside, z3.Not(allowed)], expect_unsat=True, on_model=on_model),
                  dict(name=f"{nm}:unknown_peer_refused", desc="with an allowlist configured, a connection whose peer address cannot be determined is allowed", bounds=bounds,
                       cons=rng + [z3.Not(peer_ok), allowed], expect_unsat=True, on_model=on_model)]
    else:
        specs += [dict(name=f"{nm}:no_allowlist_serves_everyone", desc="without an allowlist a peer is refused", bounds=bounds, cons=rng + [z3.Not(allowed)], expect_unsat=True, on_model=on_model)]
    check.discharge_many(e3.res, specs, 120)


def replay_native(ob, scen, pname, inputs):
    import replay_e3
    os.makedirs(os.path.join(REPLAYS, "C18"), exist_ok=True)
    pp = os.path.join(REPLAYS, "C18", f"{scen}.{pname}.plan")
    open(pp, "w").write(replay_e3.plan_text(scen, pname, {}, [], inputs))
    status, out = replay_e3.run("c18", pp)
    ob.detail += f" | native replay (c18): {status}"
    if isinstance(ob.sample, dict):
        ob.sample["native_replay"] = {"status": status, "output": out[-400:]}
    ob.replay = pp
    ob.reproduced = status == "reproduced"
    if not ob.reproduced:
        ob.status = "error"
        ob.detail += " — counterexample did NOT reproduce natively: treated as an encoder/model problem, not reported as a violation"


B_OK, B_RENDER, B_EMPTY, B_OTHER = 1, 2, 3, 4


def handler_models(is_health, ready_first):
    """models of the hyper / tokio callees of handle_http_request's state machine (shared by the decision table and the accept loop)"""

    def m_eq(eng, ctx, f, path, args, dty):
        lit = args[1]
        if isinstance(lit, Native) and lit.kind == "str" and lit.data[0] == "/health":
            return is_health
        return eng.fresh("str_eq", "bool")

    def m_spawn(eng, ctx, f, path, args, dty):
        ctx.observe("spawn_render_task")
        body = run_closure(eng, ctx, args[0], [])
        return Native("joinhandle", body)

    def m_render(eng, ctx, f, path, args, dty):
        ctx.observe("render")
        return Native("string", B_RENDER)

    def m_poll(eng, ctx, f, path, args, dty):
        jh = args[0]
        jv = eng.load_ptr(ctx, jh) if isinstance(jh, Ptr) else jh
        if not (isinstance(jv, Native) and jv.kind == "joinhandle"):
            raise sym.Unsupported(f"poll of {jv}")
        first = not ctx.statics.get("polled_once")
        ready = Enum(0, {0: Agg({0: Enum(0, {0: Agg({0: jv.data})}, "Result")})}, "Poll")
        if first:
            return Fork([(ready_first, ready), (z3.Not(ready_first), Enum(1, {}, "Poll"))])
        return ready

    def m_into_body(eng, ctx, f, path, args, dty):
        s = args[0]
        if isinstance(s, Native) and s.kind == "str":
            return Native("body", B_OK if s.data[0] == "OK" else B_OTHER)
        if isinstance(s, Native) and s.kind == "string":
            return Native("body", s.data)
        raise sym.Unsupported(f"Into<Full<Bytes>> of {s}")

    def m_resp_new(eng, ctx, f, path, args, dty):
        return Native("response", (200, args[0]))

    def m_status(eng, ctx, f, path, args, dty):
        st = args[1]
        code = 403 if "FORBIDDEN" in str(st) else -1
        return Native("builder", code)

    def m_builder_body(eng, ctx, f, path, args, dty):
        bld = args[0]
        if not (isinstance(bld, Native) and bld.kind == "builder"):
            raise sym.Unsupported(f"Builder::body on {bld}")
        return Enum(0, {0: Agg({0: Native("response", (bld.data, args[1]))})}, "Result")

    m = {r"Request::uri$|Uri::path$": lambda *a: Opaque("uri"), r"^<str as PartialEq>::eq$": m_eq, r"spawn_blocking$": m_spawn, r"PrometheusHandle::render$": m_render,
         r"IntoFuture>::into_future$|Pin::new_unchecked$": models.m_identity, r"JoinHandle as Future>::poll$": m_poll,
         r"as Into>::into$": m_into_body, r"^Response::new$": m_resp_new, r"Response::headers_mut$|HeaderValue::from_static$|HeaderMap::append$": lambda *a: Opaque("hdr"),
         r"^Response::builder$": lambda *a: Native("builder", 200), r"Builder::status$": m_status, r"Full as Default>::default$": lambda *a: Native("body", B_EMPTY),
         r"Builder::body$": m_builder_body}
    return m


def response_table(e3):
    """handle_http_request as the generated state machine: what is served for each (is_allowed, path) decision"""
    P = _e3.program(["metrics-exporter-prometheus"])
    is_allowed = z3.Bool("is_allowed")
    is_health = z3.Bool("path_is_health")
    ready_first = z3.Bool("render_task_ready_at_first_poll")
    m = handler_models(is_health, ready_first)
    m.update(models.BASE)
    eng = sym.Engine(P, models=m, opaque=TRACING)
    eng.merging = False
    b = P.bodies[[k for k in P.bodies if k.endswith("handle_http_request::{closure#0}")][0]]
    ctx0 = sym.Ctx(eng, 1)
    ctx0.statics = {"co": Enum(0, {"up": Agg({0: is_allowed, 1: Native("handle", None), 2: Opaque("request")})}, None)}
    results = []

    def script():
        r = yield ("call", b, [Agg({0: Ptr(("static", "co"))}), Opaque("cx")])
        if isinstance(r, Enum) and r.discr == 1:
            yield ("setstatic", "polled_once", True)
            r = yield ("call", b, [Agg({0: Ptr(("static", "co"))}), Opaque("cx")])
        return r
    leaves = eng.run_script(1, "handle_http_request", script, ctx0=ctx0)
    e3.absorb(eng)
    done = [l for l in leaves if l.status == "done"]
    other = z3.Or(*[l.taken() for l in leaves if l.status != "done"] or [z3.BoolVal(False)])

    def resp_of(l):
        r = l.ret
        if not (isinstance(r, Enum) and r.discr == 0):
            return None
        res = r.v[0].f[0]
        if not (isinstance(res, Enum) and res.discr == 0):
            return None
        rp = res.v[0].f[0]
        return rp.data if isinstance(rp, Native) and rp.kind == "response" else None
    def seen(l, label):
        return z3.Or(*[e.guard for lab, e, pl in l.obs if lab == label] or [z3.BoolVal(False)])
    rows = [(l, resp_of(l), seen(l, "spawn_render_task"), seen(l, "render")) for l in done]

    def cond(pred):
        out = []
        for l, rp, sp, rd in rows:
            c = pred(rp, sp, rd)
            if c is True or c is False:
                c = z3.BoolVal(c)
            out.append(z3.And(l.taken(), c))
        return z3.Or(*out or [z3.BoolVal(False)])
    bad_shape = cond(lambda rp, sp, rd: rp is None or not (isinstance(rp[1], Native) and rp[1].kind == "body"))
    st = lambda rp: rp[0] if rp else None
    bd = lambda rp: rp[1].data if rp and isinstance(rp[1], Native) else None
    bounds = "handle_http_request's generated state machine, polled until Ready (<= 2 polls; render task ready at the first or the second poll); is_allowed and the request path arbitrary"

    def on_model(ob, model):
        al = z3.is_true(model.eval(is_allowed, model_completion=True))
        hl = z3.is_true(model.eval(is_health, model_completion=True))
        ob.sample = {"is_allowed": al, "path_is_health": hl}
        replay_native(ob, "c18_response", ob.name.split(":")[1], {"configured": 1, "n": 1, "inmask": int(al), "peer_ok": 1, "health": int(hl)})
    specs = [dict(name="c18_response:witness", desc="a response is produced", bounds=bounds, cons=[cond(lambda rp, sp, rd: rp is not None)], expect_unsat=False),
             dict(name="c18_response:completes", desc="the handler panics, is left pending, or returns something that is not Ok(response)", bounds=bounds, cons=[z3.Or(other, bad_shape)], expect_unsat=True),
             dict(name="c18_response:refused_peer_gets_403_empty_and_no_metric_data", desc="a refused peer gets a status other than 403, a non-empty body, or the metrics are rendered for it", bounds=bounds,
                  cons=[z3.Not(is_allowed), cond(lambda rp, sp, rd: rp is not None and (True if (st(rp) != 403 or bd(rp) != B_EMPTY) else z3.Or(sp, rd)))], expect_unsat=True, on_model=on_model),
             dict(name="c18_response:health_returns_ok", desc="an allowed GET /health does not return 200 'OK'", bounds=bounds,
                  cons=[is_allowed, is_health, cond(lambda rp, sp, rd: rp is not None and (st(rp) != 200 or bd(rp) != B_OK))], expect_unsat=True, on_model=on_model),
             dict(name="c18_response:other_paths_return_the_current_rendering", desc="an allowed GET on another path does not return 200 with the rendering produced by PrometheusHandle::render for this request", bounds=bounds,
                  cons=[is_allowed, z3.Not(is_health), cond(lambda rp, sp, rd: rp is not None and (True if (st(rp) != 200 or bd(rp) != B_RENDER) else z3.Not(rd)))], expect_unsat=True, on_model=on_model)]
    check.discharge_many(e3.res, specs, 60)


def co_state(clo):
    """a freshly created coroutine (MIR aggregate `{coroutine@..} { upvars }`) as the state value the generated poll function works on"""
    if not isinstance(clo, sym.Closure):
        raise sym.Unsupported(f"coroutine expected, got {clo}")
    return Enum(0, {"up": Agg({i: v for i, v in enumerate(clo.caps.values())})}, None)


def serve_loop(e3, nets_len, K=2):
    """The accept loop as the compiler generated it: serve_tcp's state machine is polled while accept() yields K connections (each
    Ok(stream) or Err), then Pending. For every accepted connection the task handed to tokio::spawn is taken apart: its service
    closure is called with a request and the handler's state machine is run to its response. Oracle: one response per accepted
    connection, 200 + rendering for a peer inside the allowlist (or when none is configured), 403 + empty body otherwise, and the
    loop is still accepting afterwards whatever accept() and peer_addr() returned."""
    from mirsmt import models_net as MN, models_str as MS
    P = _e3.program(["metrics-exporter-prometheus"])
    configured = nets_len is not None
    L = nets_len or 0
    addrs = [z3.BitVec(f"net{i}_addr", 32) for i in range(L)]
    plens = [z3.BitVec(f"net{i}_prefix_len", 8) for i in range(L)]
    acc_ok = [z3.Bool(f"accept{k}_ok") for k in range(K)]
    peer_ok = [z3.Bool(f"peer_addr{k}_ok") for k in range(K)]
    ips = [z3.BitVec(f"peer{k}_ip", 32) for k in range(K)]
    is_health = z3.Bool("path_is_health")
    rng = [z3.ULE(p, z3.BitVecVal(32, 8)) for p in plens] + [z3.Extract(31, 24, x) == z3.BitVecVal(127, 8) for x in ips]
    naccept = [0]

    def m_accept_poll(eng, ctx, f, path, args, dty):
        k = ctx.statics.get("accepts", 0)
        if k >= K:
            return Enum(1, {}, "Poll")
        ctx.statics["accepts"] = k + 1
        good = Enum(0, {0: Agg({0: Enum(0, {0: Agg({0: Agg({0: Native("stream", k), 1: Opaque("peer sockaddr")})})}, "Result")})}, "Poll")
        bad = Enum(0, {0: Agg({0: Enum(1, {1: Agg({0: Opaque("io::Error")})}, "Result")})}, "Poll")

        def ok_(c):
            c.observe("accepted", k=k)
            return good
        return Fork([(acc_ok[k], ok_), (z3.Not(acc_ok[k]), bad)])

    def m_peer_addr(eng, ctx, f, path, args, dty):
        st = args[0]
        while isinstance(st, Ptr):
            st = eng.load_ptr(ctx, st)
        if not (isinstance(st, Native) and st.kind == "stream"):
            raise sym.Unsupported(f"peer_addr of {st}")
        k = st.data
        return Fork([(peer_ok[k], Enum(0, {0: Agg({0: Native("sockaddr", k)})}, "Result")), (z3.Not(peer_ok[k]), Enum(1, {1: Agg({0: Opaque("io::Error")})}, "Result"))])

    def m_ip(eng, ctx, f, path, args, dty):
        sa = args[0]
        while isinstance(sa, Ptr):
            sa = eng.load_ptr(ctx, sa)
        return MN.ip(ips[sa.data])

    def m_map_or_else(eng, ctx, f, path, args, dty):
        e = args[0]
        if not (isinstance(e, Enum) and isinstance(e.discr, int)):
            raise sym.Unsupported("map_or_else on a symbolic Result")
        return TailCall(args[2], [e.v[0].f[0]]) if e.discr == 0 else TailCall(args[1], [e.v[1].f[0]])
    hb = P.bodies[[k for k in P.bodies if k.endswith("handle_http_request::{closure#0}")][0]]

    def m_spawn_task(eng, ctx, f, path, args, dty):
        """tokio::spawn(task): the task's service closure is called with a request and the resulting handler is run to its response"""
        task = args[0]
        if not isinstance(task, sym.Closure):
            raise sym.Unsupported(f"tokio::spawn of {task}")
        svc = [v for v in task.caps.values() if isinstance(v, Native) and v.kind == "service"]
        strm = [v for v in task.caps.values() if isinstance(v, Native) and v.kind == "stream"]
        if len(svc) != 1 or len(strm) != 1:
            raise sym.Unsupported(f"spawned task does not capture one stream and one service: {task}")
        k = strm[0].data

        def script(c):
            fut = yield ("callv", svc[0].data, [Opaque("request")])
            cell = yield ("effect", lambda c_: c_.statics.__setitem__(f"handler{k}", co_state(fut)) or f"handler{k}")
            r = yield ("callv", hb, [Agg({0: Ptr(("static", f"handler{k}"))}), Opaque("cx")])
            yield ("observe", "response", {"k": k, "resp": r})
            return Native("joinhandle", None)
        return sym.Script(script)
    m = handler_models(is_health, z3.BoolVal(True))
    m.update({r"TcpListener::accept$": lambda *a: Native("acceptfut", None), r"accept\(\)\} as Future>::poll$": m_accept_poll,
              r"TcpStream::peer_addr$": m_peer_addr, r"Result::map_or_else$": m_map_or_else, r"SocketAddr::ip$": m_ip,
              r"^tokio::spawn$|task::spawn$": m_spawn_task, r"service_fn$": lambda eng, ctx, f, path, args, dty: Native("service", args[0]),
              r"^<PrometheusHandle as Clone>::clone$": lambda *a: Native("handle", None), r"JoinHandle as Drop>::drop$": models.m_unit})
    m.update(MN.NET)
    m.update(models.RESULT)
    m.update(models.BASE)
    eng = sym.Engine(P, models=m, opaque=TRACING, loop_bound=K + 2, max_paths=6000)
    eng.merging = False
    MN.install(eng)
    st_b = P.find("HttpListeningExporter", "serve_tcp")
    poll_b = P.bodies[[k for k in P.bodies if k.endswith("serve_tcp::{closure#0}")][0]]
    ctx0 = sym.Ctx(eng, 1)
    lst = Enum(1, {1: Agg({0: MS.lvec(tuple(MN.net(a, p) for a, p in zip(addrs, plens)))})}, "Option") if configured else Enum(0, {}, "Option")
    new_b = P.find_fn("new_http_listener")
    m[r"^std::net::TcpListener::bind$|^TcpListener::bind$"] = lambda *a: Enum(0, {0: Agg({0: Opaque("std listener")})}, "Result")
    m[r"TcpListener::set_nonblocking$"] = lambda *a: Enum(0, {0: Agg({0: UNIT})}, "Result")
    m[r"TcpListener::from_std$"] = lambda *a: Enum(0, {0: Agg({0: Opaque("tokio listener")})}, "Result")
    m[r"^Box::pin$"] = models.m_identity

    def script():
        r = yield ("call", new_b, [Native("handle", None), Opaque("listen address"), lst])
        if not (isinstance(r, Enum) and r.discr == 0):
            raise sym.Unsupported(f"new_http_listener did not return Ok: {r}")
        fut = r.v[0].f[0]
        while isinstance(fut, Agg) and len(fut.f) == 1:
            fut = list(fut.f.values())[0]
        if not (isinstance(fut, sym.Closure) and fut.caps):
            raise sym.Unsupported(f"exporter future: {fut}")
        yield ("setstatic", "exp", fut.caps.get("exporter", list(fut.caps.values())[0]))
        co = yield ("call", st_b, [Ptr(("static", "exp")), Opaque("listener")])
        yield ("setstatic", "loop", co_state(co))
        r = yield ("call", poll_b, [Agg({0: Ptr(("static", "loop"))}), Opaque("cx")])
        return r
    leaves = eng.run_script(1, "serve_tcp state machine", script, ctx0=ctx0)
    e3.absorb(eng)
    done = [l for l in leaves if l.status == "done"]
    other = z3.Or(*[l.taken() for l in leaves if l.status != "done"] or [z3.BoolVal(False)])

    def resp_of(r):
        if not (isinstance(r, Enum) and r.discr == 0):
            return None
        res = r.v[0].f[0]
        if not (isinstance(res, Enum) and res.discr == 0):
            return None
        rp = res.v[0].f[0]
        return rp.data if isinstance(rp, Native) and rp.kind == "response" else None
    stopped, wrong, missing, rendered_for_refused = [], [], [], []
    for l in done:
        pending = isinstance(l.ret, Enum) and ((isinstance(l.ret.discr, int) and l.ret.discr == 1))
        if not pending:
            stopped.append(l.taken())
        for k in range(K):
            inside = z3.Or(*[MN.contains_ip(MN.net(a, p), ips[k]) for a, p in zip(addrs, plens)]) if L else z3.BoolVal(False)
            should = z3.And(peer_ok[k], inside) if configured else z3.BoolVal(True)
            acc = [e.guard for lab, e, pl in l.obs if lab == "accepted" and pl["k"] == k]
            resps = [(e.guard, resp_of(pl["resp"])) for lab, e, pl in l.obs if lab == "response" and pl["k"] == k]
            accepted = z3.Or(*acc) if acc else z3.BoolVal(False)
            answered = z3.Or(*[g for g, _ in resps]) if resps else z3.BoolVal(False)
            missing.append(z3.And(l.taken(), accepted, z3.Not(answered)))
            for g, rp in resps:
                if rp is None or not (isinstance(rp[1], Native) and rp[1].kind == "body"):
                    wrong.append(z3.And(l.taken(), g))
                    continue
                st, bd = rp[0], rp[1].data
                good_serve = st == 200 and bd in (B_OK, B_RENDER)
                good_refuse = st == 403 and bd == B_EMPTY
                wrong.append(z3.And(l.taken(), g, z3.Or(z3.And(should, z3.BoolVal(not good_serve)), z3.And(z3.Not(should), z3.BoolVal(not good_refuse)))))
    tag = "none" if not configured else f"n{L}"
    nm = f"c18_loop_{tag}"
    bounds = (f"new_http_listener, then serve_tcp's generated state machine polled once: accept() yields {K} results (each a connection or an error), then Pending; every spawned connection task is run to its first response; "
              + ("no allowlist" if not configured else f"allowlist of {L} IPv4 network(s), any address / prefix length") + "; each peer: any 127.0.0.0/8 address, or peer_addr() fails; path /health or other")

    def dotted(x):
        return ".".join(str((x >> s) & 255) for s in (24, 16, 8, 0))

    def on_model(ob, model):
        ev = lambda t: model.eval(t, model_completion=True)
        nets = [f"{dotted(ev(a).as_long())}/{ev(p).as_long()}" for a, p in zip(addrs, plens)]
        conns = [{"accept_ok": z3.is_true(ev(acc_ok[k])), "peer_addr_ok": z3.is_true(ev(peer_ok[k])), "peer": dotted(ev(ips[k]).as_long())} for k in range(K)]
        ob.sample = {"allowlist": nets if configured else None, "connections": conns, "path_is_health": z3.is_true(ev(is_health))}
        inputs = {"configured": int(configured), "n": L, "K": K, "health": int(z3.is_true(ev(is_health)))}
        for i, (a, p) in enumerate(zip(addrs, plens)):
            inputs[f"addr{i}"] = ev(a).as_long()
            inputs[f"plen{i}"] = ev(p).as_long()
        for k in range(K):
            inputs[f"acc{k}"] = int(conns[k]["accept_ok"])
            inputs[f"peerok{k}"] = int(conns[k]["peer_addr_ok"])
            inputs[f"peer{k}"] = ev(ips[k]).as_long()
            ins = z3.Or(*[MN.contains_ip(MN.net(a, p), ips[k]) for a, p in zip(addrs, plens)]) if L else z3.BoolVal(False)
            inputs[f"inside{k}"] = int(z3.is_true(ev(ins)))
        replay_native(ob, "c18_loop", ob.name.split(":")[1], inputs)
    specs = [dict(name=f"{nm}:witness", desc="the loop reaches Pending after the connections", bounds=bounds, cons=rng + [z3.Or(*[l.taken() for l in done] or [z3.BoolVal(False)])], expect_unsat=False),
             dict(name=f"{nm}:no_panic", desc="the accept loop or a connection task panics / exceeds the bound", bounds=bounds, cons=rng + [other], expect_unsat=True, on_model=on_model),
             dict(name=f"{nm}:later_clients_still_served", desc="the accept loop ends (the listener is dropped) because of what one connection did: later clients are never served", bounds=bounds,
                  cons=rng + [z3.Or(*stopped) if stopped else z3.BoolVal(False)], expect_unsat=True, on_model=on_model),
             dict(name=f"{nm}:every_accepted_connection_is_answered", desc="an accepted connection is not handed to a task that answers it", bounds=bounds,
                  cons=rng + [z3.Or(*missing) if missing else z3.BoolVal(False)], expect_unsat=True, on_model=on_model),
             dict(name=f"{nm}:answer_follows_the_allowlist", desc="a peer inside the allowlist (or any peer without one) does not get 200 with the rendering / OK, or a peer outside gets anything but 403 with an empty body", bounds=bounds,
                  cons=rng + [z3.Or(*wrong) if wrong else z3.BoolVal(False)], expect_unsat=True, on_model=on_model)]
    check.discharge_many(e3.res, specs, 120)


def syntax_table(e3):
    """add_allowed_address accepts every documented syntax, for both address families: a plain IP address is stored as exactly
    that host's network (/32 for IPv4, /128 for IPv6), a CIDR subnet as that network; anything else is an error"""
    from mirsmt import models_str as MS, models_std
    P = _e3.program(["metrics-exporter-prometheus"])
    CIDR, PLAIN, GARBAGE = 0, 1, 2
    cls = z3.Int("address_syntax")      # 0 = CIDR `addr/len`, 1 = plain IP address, 2 = neither
    fam = z3.Int("address_family")      # 4 or 6
    given = z3.Int("given_prefix_len")  # the prefix length written in a CIDR string
    hostlen = z3.If(fam == 4, 32, 128)
    TOK = ("tok", "addr", 0)
    the_str = MS.sstr((TOK,))
    err = lambda: Enum(1, {1: Agg({0: Opaque("AddrParseError")})}, "Result")

    def shape(eng, ctx, v):
        """(is the address token alone, literal suffix after the token or None)"""
        w = MS._load(eng, ctx, v)
        if isinstance(w, Agg) and 0 in w.f:          # String { vec } built by format!
            w = w.f[0]
        if not (isinstance(w, Native) and w.kind == "sstr"):
            raise sym.Unsupported(f"address string expected, got {w}")
        items = list(w.data)
        if not items or items[0] != TOK:
            raise sym.Unsupported("address string that does not start with the caller's text")
        suffix = []
        for c in items[1:]:
            if not (z3.is_bv_value(c)):
                raise sym.Unsupported("address string with a non-literal suffix")
            suffix.append(chr(c.as_long()))
        return "".join(suffix)

    def m_ipnet_from_str(eng, ctx, f, path, args, dty):
        suf = shape(eng, ctx, args[0])
        if suf == "":
            ok = cls == CIDR
            return Fork([(ok, Enum(0, {0: Agg({0: Native("net", ("cidr", given))})}, "Result")), (z3.Not(ok), err())])
        if suf[0] == "/" and suf[1:].isdigit():
            # text + "/NN": a network iff the text is a plain address and NN fits the family
            n = int(suf[1:])
            ok = z3.And(cls == PLAIN, n <= hostlen)
            return Fork([(ok, Enum(0, {0: Agg({0: Native("net", ("suffixed", z3.IntVal(n)))})}, "Result")), (z3.Not(ok), err())])
        return err() if True else None

    def m_ipaddr_from_str(eng, ctx, f, path, args, dty):
        suf = shape(eng, ctx, args[0])
        if suf != "":
            return err()
        ok = cls == PLAIN
        return Fork([(ok, Enum(0, {0: Agg({0: Native("ipaddr", "plain")})}, "Result")), (z3.Not(ok), err())])

    def m_from_ip(eng, ctx, f, path, args, dty):
        a = args[0]
        if isinstance(a, Native) and a.kind == "ipaddr":
            return Native("net", ("host", hostlen))
        raise sym.Unsupported(f"IpNet::from({a})")

    def m_contains(eng, ctx, f, path, args, dty):
        suf = shape(eng, ctx, args[0])
        pat = args[1]
        if z3.is_bv_value(pat) and chr(pat.as_long()) == "/":
            return z3.BoolVal(True) if "/" in suf else (cls == CIDR)
        raise sym.Unsupported("str::contains with a pattern other than '/' on the address text")

    def m_get_or_insert(eng, ctx, f, path, args, dty):
        p_ = args[0]
        o = eng.load_ptr(ctx, p_)
        if isinstance(o, Enum) and isinstance(o.discr, int) and o.discr == 0:
            eng.store_ptr(ctx, p_, Enum(1, {1: Agg({0: MS.lvec(())})}, "Option"))
        return Ptr(p_.root, p_.path + (("variant", "Some"), 0))

    def m_push(eng, ctx, f, path, args, dty):
        v = args[1]
        if isinstance(v, Native) and v.kind == "net":
            ctx.observe("push", kind=v.data[0], plen=v.data[1])
        else:
            ctx.observe("push", kind="other", plen=z3.IntVal(-1))
        return UNIT
    m = {r"^<IpNet as FromStr>::from_str$|^IpNet::from_str$": m_ipnet_from_str, r"^<IpAddr as FromStr>::from_str$|^IpAddr::from_str$": m_ipaddr_from_str,
         r"^<IpNet as From>::from$|^IpNet::from$|^<IpAddr as Into>::into$": m_from_ip, r"as AsRef>::as_ref$": lambda eng, ctx, f, path, args, dty: args[0],
         r"(^|::)str::(.*::)?contains$": m_contains,
         r"^Vec::new$": lambda *a: MS.lvec(()), r"Option::get_or_insert(_with)?$": m_get_or_insert, r"^Vec::push$": m_push,
         r"^<(AddrParseError|PrefixLenError|.*Error) as ToString>::to_string$|Error as .*to_string$": lambda *a: Opaque("string"), r"BuildError::": lambda *a: Opaque("BuildError")}
    m.update(MS.FMT)
    m.update(models.RESULT)
    m.update(models.BASE)
    eng = sym.Engine(P, models=m, opaque=TRACING)
    eng.merging = False
    b = P.find("PrometheusBuilder", "add_allowed_address")
    ctx0 = sym.Ctx(eng, 1)
    ctx0.statics = {"address": the_str}

    def script():
        r = yield ("call", b, [Agg({0: Opaque("cfg"), 1: Enum(0, {}, "Option")}), Ptr(("static", "address"))])
        return r
    leaves = eng.run_script(1, "add_allowed_address", script, ctx0=ctx0)
    e3.absorb(eng)
    done = [l for l in leaves if l.status == "done"]
    other = z3.Or(*[l.taken() for l in leaves if l.status != "done"] or [z3.BoolVal(False)])

    def npush(l, pred=lambda pl: z3.BoolVal(True)):
        t = z3.IntVal(0)
        for lab, e, pl in l.obs:
            if lab == "push":
                t = t + z3.If(z3.And(e.guard, pred(pl)), 1, 0)
        return t

    def cond(pred):
        return z3.Or(*[z3.And(l.taken(), pred(l)) for l in done] or [z3.BoolVal(False)])
    is_ok = lambda l: eng.discr_is(l.ret.discr, 0)
    stored = lambda l, want: z3.And(npush(l) == 1, npush(l, lambda pl: z3.And(z3.BoolVal(pl["kind"] != "other"), pl["plen"] == want)) == 1)
    rng = [cls >= 0, cls <= 2, z3.Or(fam == 4, fam == 6), given >= 0, given <= hostlen]
    bounds = ("add_allowed_address from entry to return; the address string is the caller's text (classified as CIDR `addr/len` / plain IP address / neither, of family IPv4 or IPv6, "
              "the written prefix length symbolic), possibly extended by the code with a literal suffix; IpNet / IpAddr parsing by their contracts")

    def on_model(ob, model):
        c = model.eval(cls, model_completion=True).as_long()
        fm = model.eval(fam, model_completion=True).as_long()
        ob.sample = {"address_syntax": ["CIDR", "plain IP address", "neither"][c], "family": f"IPv{fm}"}
        replay_native(ob, "c18_syntax", ob.name.split(":")[1], {"cls": c, "family": fm})
    specs = [dict(name="c18_syntax:witness", desc="some address is accepted", bounds=bounds, cons=rng + [cond(is_ok)], expect_unsat=False),
             dict(name="c18_syntax:returns", desc="add_allowed_address panics", bounds=bounds, cons=rng + [other], expect_unsat=True),
             dict(name="c18_syntax:subnet_accepted", desc="a subnet in CIDR notation is rejected or not stored as that network", bounds=bounds,
                  cons=rng + [cls == CIDR, cond(lambda l: z3.Not(z3.And(is_ok(l), stored(l, given))))], expect_unsat=True, on_model=on_model),
             dict(name="c18_syntax:plain_address_accepted", desc="a plain IP address (documented as accepted) is rejected or not stored as exactly that host's network (/32 for IPv4, /128 for IPv6)", bounds=bounds,
                  cons=rng + [cls == PLAIN, cond(lambda l: z3.Not(z3.And(is_ok(l), stored(l, hostlen))))], expect_unsat=True, on_model=on_model),
             dict(name="c18_syntax:garbage_rejected", desc="a string that is neither is accepted or changes the allowlist", bounds=bounds,
                  cons=rng + [cls == GARBAGE, cond(lambda l: z3.Or(is_ok(l), npush(l) != 0))], expect_unsat=True, on_model=on_model)]
    check.discharge_many(e3.res, specs, 60)


def run(tier, seed, t0):
    e3 = _e3.E3("C18")
    jobs = [(f"c18_allow_{'none' if n is None else 'n' + str(n)}", (lambda e, n=n: allow_decision(e, n))) for n in ([None, 1, 2, 3] if tier == "quick" else [None, 1, 2, 3, 4])]
    jobs += [(f"c18_allow_n{n}_via_builder", (lambda e, n=n: allow_decision(e, n, False, True))) for n in ([2] if tier == "quick" else [1, 2, 3])]
    jobs += [(f"c18_allow_n{n}_v6peer", (lambda e, n=n: allow_decision(e, n, True))) for n in ([1, 2] if tier == "quick" else [1, 2, 3])]
    jobs += [(f"c18_loop_{'none' if n is None else 'n' + str(n)}", (lambda e, n=n: serve_loop(e, n))) for n in ([None, 2] if tier == "quick" else [None, 1, 2, 3])]
    for nm, fn in jobs + [("c18_response", response_table), ("c18_syntax", syntax_table)]:
        if os.environ.get("VERIF_C18_ONLY") and os.environ["VERIF_C18_ONLY"] != nm:
            continue
        try:
            fn(e3)
        except _e3.ENC_ERRORS as ex:
            e3.error(nm, "MIR->SMT encoding", ex)
    finish("C18", tier, seed, list(e3.res.obligations), t0, ASSUME + ["E3 callee models: " + ", ".join(sorted(e3.models))], sorted(e3.functions),
           explanation="MIR->SMT decision tables of the allowlist check and of the request handler's generated state machine")


def replay(path):
    import replay_e3
    status, out = replay_e3.run("c18", path)
    print(status, out)
    return 1 if status == "reproduced" else 0

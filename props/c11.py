"""C11 TCP exporter (reduced scope): start-up for every buffer configuration; frame streaming kernel."""
import z3
from common import *
import _e3
from mirsmt import sym, models, check
from mirsmt.sym import Ptr, Agg, Enum, Native, Fork, Diverge, UNIT, bv, Opaque

ASSUME = ["event loop: run_transport is executed from its entry over scripted poll() results (see props/c11_loop.py: what the models of mio, crossbeam-channel and prost assume; socket outcomes and frame lengths are the solver's); "
          "more than 2 clients, more than 7 batches, client sockets becoming readable, and the emitting side (Handle::push_metric racing with should_send) are outside the bound",
          "drive_connection: frames are abstract byte ranges with symbolic lengths 1..2^20; a write accepts any prefix or fails with WouldBlock / Interrupted (<= 2 per history) / another error; no tracing subscriber (events and spans disabled)",
          "VecDeque::with_capacity(n) panics with 'capacity overflow' when n elements of the element type exceed isize::MAX bytes (documented std behaviour); mio/tracing calls are opaque",
          "size_of::<bytes::Bytes>() = 32"]
ELEM = 32


def prologue(e3):
    P = _e3.program(["metrics-exporter-tcp"])
    hit = {"n": 0}

    def m_with_capacity(eng, ctx, f, path, args, dty):
        n = args[0]
        too_big = z3.UGT(n, bv(((1 << 63) - 1) // ELEM))
        ctx.observe("vecdeque_with_capacity", n=n)
        return Fork([(too_big, Diverge("panic", "VecDeque::with_capacity: capacity overflow")), (z3.Not(too_big), Native("vecdeque", []))])
    m = {r"VecDeque::with_capacity$": m_with_capacity,
         r"^Events::with_capacity$|HashMap::new$|^Vec::new$|^VecDeque::new$": lambda *a: Opaque("container"),
         r"Interest::never$": lambda *a: Diverge("cut", "end of the prologue (first statement of the event loop)")}
    m.update(models.BASE)
    eng = sym.Engine(P, models=m)
    b = P.find_fn("run_transport")
    has = z3.Bool("buffer_size_is_some")
    n = z3.BitVec("buffer_size", 64)
    arg = Enum(z3.If(has, bv(1), bv(0)), {1: Agg({0: n})}, "Option")

    def script():
        r = yield ("call", b, [Opaque("poll"), Opaque("listener"), Opaque("rx"), Opaque("state"), arg])
        return r
    leaves = eng.run_script(1, "run_transport prologue", script)
    e3.absorb(eng)
    panic = z3.Or(*[l.taken() for l in leaves if l.status == "panic"] or [z3.BoolVal(False)])
    reached = z3.Or(*[l.taken() for l in leaves if l.status == "cut"] or [z3.BoolVal(False)])
    bounds = "run_transport from entry to the first statement of its event loop; buffer_size = None or Some(n) for every n <= 2^24"

    def on_model(ob, model):
        some = z3.is_true(model.eval(has, model_completion=True))
        nv = model.eval(n, model_completion=True).as_long()
        ob.sample = {"buffer_size": (f"Some({nv})" if some else "None")}
        import replay_e3
        os.makedirs(os.path.join(REPLAYS, "C11"), exist_ok=True)
        pp = os.path.join(REPLAYS, "C11", "c11_prologue.plan")
        open(pp, "w").write(replay_e3.plan_text("c11_prologue", ob.name.split(":")[1], {}, [], {"has": int(some), "n": nv}))
        status, out = replay_e3.run("c11", pp)
        ob.detail += f" | native replay (c11): {status}"
        ob.sample["native_replay"] = {"status": status, "output": out[-400:]}
        ob.replay = pp
        ob.reproduced = status == "reproduced"
        if not ob.reproduced:
            ob.status = "error"
    specs = [dict(name="c11_prologue:witness", desc="the event loop is reachable for some configuration", bounds=bounds, cons=[reached], expect_unsat=False),
             dict(name="c11_prologue:starts_with_no_limit", desc="the transport thread panics during start-up when no buffer limit is configured (buffer_size = None)", bounds=bounds,
                  cons=[z3.Not(has), panic], expect_unsat=True, on_model=on_model),
             dict(name="c11_prologue:starts_for_every_limit", desc="the transport thread panics during start-up for some Some(n)", bounds=bounds,
                  cons=[has, z3.ULE(n, bv(1 << 24)), panic], expect_unsat=True, on_model=on_model)]
    check.discharge_many(e3.res, specs, 60)


TRACING = [r"tracing", r"__CALLSITE", r"LevelFilter", r"DefaultCallsite", r"Interest", r"ValueSet", r"FieldSet", r"Metadata", r"Event::", r"__macro_support", r"fmt::Arguments", r"core::fmt",
           r"^Arguments::", r"^debug$", r"^display$", r"tracing-0\.1", r"^Span::"]
KINDS = ["WouldBlock", "Interrupted", "Other"]
LMAX = 1 << 20
MAX_INTR = 2


def drive(e3, ncalls, nq, with_rem):
    """drive_connection, `ncalls` consecutive calls on one client: the socket accepts any prefix of each write or fails with
    WouldBlock / Interrupted / another error. Frames are abstract byte ranges (frame id, lo, hi) with symbolic lengths."""
    P = _e3.program(["metrics-exporter-tcp"])
    P.enums.setdefault("ErrorKind", KINDS)
    L = [z3.BitVec(f"len{i}", 64) for i in range(nq + 1)]          # frame 0 is the one whose remainder may be parked in wbuf
    rem_lo = z3.BitVec("parked_from", 64)
    base = [z3.And(z3.UGE(x, bv(1)), z3.ULE(x, bv(LMAX))) for x in L]
    nwrite = [0]

    def B(i, lo, hi):
        return Native("bytes", [bv(i), lo, hi])

    def m_write(eng, ctx, f, path, args, dty):
        buf = args[1]
        if isinstance(buf, Ptr):
            buf = eng.load_ptr(ctx, buf)
        fid, lo, hi = buf.data
        nwrite[0] += 1
        k = nwrite[0]
        n = z3.BitVec(f"accepted{k}", 64)
        kind = z3.BitVec(f"errkind{k}", 64)
        ok = z3.Bool(f"write_ok{k}")

        def good(c):
            c.pc.append(z3.ULE(n, hi - lo))
            c.observe("accepted", frame=fid, lo=lo, hi=lo + n, n=n)
            return Enum(0, {0: Agg({0: n})}, "Result")

        def bad_kind(ki):
            def bad(c):
                c.pc.append(kind == bv(ki))
                c.observe("write_error", kind=kind)
                if KINDS[ki] == "Interrupted":
                    c.statics["interrupts"] = c.statics.get("interrupts", 0) + 1
                return Enum(1, {1: Agg({0: Native("ioerr", bv(ki))})}, "Result")
            return bad
        alts = [(ok, good)]
        for ki, kn in enumerate(KINDS):
            cond = z3.And(z3.Not(ok), kind == bv(ki))
            if kn == "Interrupted":
                # bound: a write is interrupted at most MAX_INTR times per history (the retry is a recursion)
                cnt = ctx.statics.get("interrupts", 0)
                if isinstance(cnt, int):
                    if cnt >= MAX_INTR:
                        continue
                else:
                    cond = z3.And(cond, cnt < MAX_INTR)
            alts.append((cond, bad_kind(ki)))
        return Fork(alts)

    def m_kind(eng, ctx, f, path, args, dty):
        e = args[0]
        while isinstance(e, Ptr):
            e = eng.load_ptr(ctx, e)
        return Enum(e.data, {}, "ErrorKind")

    def m_kind_eq(eng, ctx, f, path, args, dty):
        a, b_ = args
        while isinstance(a, Ptr):
            a = eng.load_ptr(ctx, a)
        while isinstance(b_, Ptr):
            b_ = eng.load_ptr(ctx, b_)
        da = bv(a.discr) if isinstance(a.discr, int) else a.discr
        db = bv(b_.discr) if isinstance(b_.discr, int) else b_.discr
        return da == db

    def m_pop_front(eng, ctx, f, path, args, dty):
        q = eng.load_ptr(ctx, args[0])
        if not q.data:
            return Enum(0, {}, "Option")
        eng.store_ptr(ctx, args[0], Native("deque", list(q.data[1:])))
        return Enum(1, {1: Agg({0: q.data[0]})}, "Option")

    def m_len(eng, ctx, f, path, args, dty):
        b_ = args[0]
        while isinstance(b_, Ptr):
            b_ = eng.load_ptr(ctx, b_)
        return b_.data[2] - b_.data[1]

    def m_split_off(eng, ctx, f, path, args, dty):
        b_ = eng.load_ptr(ctx, args[0])
        fid, lo, hi = b_.data
        at = args[1]
        eng.store_ptr(ctx, args[0], Native("bytes", [fid, lo, lo + at]))
        return Native("bytes", [fid, lo + at, hi])

    def m_deref(eng, ctx, f, path, args, dty):
        b_ = args[0]
        while isinstance(b_, Ptr):
            b_ = eng.load_ptr(ctx, b_)
        return b_
    m = {r"^<mio::net::TcpStream as std::io::Write>::write$|TcpStream as Write>::write$": m_write, r"^std::io::Error::kind$|io::Error::kind$": m_kind, r"^<ErrorKind as PartialEq>::eq$": m_kind_eq,
         r"^VecDeque::pop_front$": m_pop_front, r"^bytes::Bytes::len$|^Bytes::len$": m_len, r"Bytes::split_off$": m_split_off, r"Bytes as Deref>::deref$": m_deref,
         r"Level as PartialOrd>::le$": lambda *a: z3.BoolVal(False)}       # no tracing subscriber: events and spans are disabled
    m.update(models.BASE)
    eng = sym.Engine(P, models=m, opaque=TRACING, loop_bound=nq + 3, max_paths=5000)
    eng.merging = False
    b = P.find_fn("drive_connection")
    ctx0 = sym.Ctx(eng, 1)
    wb = Enum(1, {1: Agg({0: B(0, rem_lo, L[0])})}, "Option") if with_rem else Enum(0, {}, "Option")
    if with_rem:
        base.append(z3.And(z3.UGT(rem_lo, bv(0)), z3.ULT(rem_lo, L[0])))
    ctx0.statics = {"wbuf": wb, "msgs": Native("deque", [B(i, bv(0), L[i]) for i in range(1, nq + 1)])}

    def script():
        outs = []
        for k in range(ncalls):
            r = yield ("call", b, [Opaque("conn"), Ptr(("static", "wbuf")), Ptr(("static", "msgs"))])
            outs.append(r)
            if z3.is_true(z3.simplify(eng.as_bool(r))):
                break               # the client is being removed
        w = yield ("getstatic", "wbuf")
        q = yield ("getstatic", "msgs")
        return Agg({0: outs[-1], 1: w, 2: q})
    leaves = eng.run_script(1, f"drive_connection x{ncalls}", script, ctx0=ctx0)
    e3.absorb(eng)
    done = [l for l in leaves if l.status == "done"]
    other = z3.Or(*[l.taken() for l in leaves if l.status != "done"] or [z3.BoolVal(False)])
    torn, lost, dup = [], [], []
    for l in done:
        closing = eng.as_bool(l.ret.f[0])
        acc = [dict(pl, guard=e.guard) for lab, e, pl in l.obs if lab == "accepted"]
        # replay the accepted segments against the reference stream: current frame `cur` with `off` bytes of it accepted
        cur = bv(0) if with_rem else bv(-1 & ((1 << 64) - 1))
        off = rem_lo if with_rem else bv(0)
        inprog = z3.BoolVal(with_rem)
        bad_t = z3.BoolVal(False)
        bad_d = z3.BoolVal(False)
        for a in acc:
            flen = L[-1]
            for i in reversed(range(nq)):
                flen = z3.If(a["frame"] == bv(i), L[i], flen)
            nonempty = z3.And(a["guard"], a["n"] != bv(0))
            cont = z3.And(inprog, a["frame"] == cur, a["lo"] == off)
            start = z3.And(z3.Not(inprog), a["lo"] == bv(0), z3.Or(cur == bv(-1 & ((1 << 64) - 1)), z3.UGT(a["frame"], cur)))
            bad_t = z3.Or(bad_t, z3.And(nonempty, z3.Not(z3.Or(cont, start))))
            bad_d = z3.Or(bad_d, z3.And(nonempty, z3.Not(inprog), cur != bv(-1 & ((1 << 64) - 1)), z3.ULE(a["frame"], cur)))
            newoff = a["hi"]
            cur = z3.If(nonempty, a["frame"], cur)
            off = z3.If(nonempty, newoff, off)
            inprog = z3.If(nonempty, newoff != flen, inprog)
        # at return, a frame in progress must be parked in wbuf exactly from where the socket stopped (unless the client is removed)
        w = l.ret.f[1]
        q = l.ret.f[2]
        if not isinstance(w, Enum):
            raise sym.Unsupported(f"wbuf at return: {w}")
        has_w = eng.discr_is(w.discr, 1)
        if 1 in w.v and isinstance(w.v[1].f.get(0), Native):
            wf, wlo, whi = w.v[1].f[0].data
            parked_ok = z3.And(has_w, wf == cur, wlo == off)
        else:
            wf = None
            parked_ok = z3.BoolVal(False)
        bad_t = z3.Or(bad_t, z3.And(z3.Not(closing), inprog, z3.Not(parked_ok)))
        torn.append(z3.And(l.taken(), bad_t))
        dup.append(z3.And(l.taken(), bad_d))
        # whole frames: every queued frame is accepted completely, still queued / parked, or the client is removed
        kept = [x.data[0] == bv(0) if False else x.data[0] for x in q.data]
        for i in range(1, nq + 1):
            started = z3.Or(*[z3.And(a["guard"], a["frame"] == bv(i), a["n"] != bv(0)) for a in acc] or [z3.BoolVal(False)])
            still = z3.Or(*([k == bv(i) for k in kept] + ([z3.And(has_w, wf == bv(i))] if wf is not None else [])) or [z3.BoolVal(False)])
            lost.append(z3.And(l.taken(), z3.Not(closing), z3.Not(started), z3.Not(still)))
    cname = f"c11_drive_c{ncalls}_q{nq}_{'rem' if with_rem else 'norem'}"
    bounds = (f"{ncalls} consecutive call(s) of drive_connection on one client; parked remainder of a frame: {'yes (any split point)' if with_rem else 'none'}; {nq} whole frame(s) queued; frame lengths 1..2^20; "
              f"every write accepts any prefix (incl. 0 bytes) or fails with WouldBlock / Interrupted (at most {MAX_INTR} times per history) / another error; {len(done)} paths")

    def on_model(ob, model):
        ev = lambda t: model.eval(t, model_completion=True)
        for l in done:
            if z3.is_true(ev(l.taken())):
                rows = []
                for lab, e, pl in l.obs:
                    if not z3.is_true(ev(e.guard)):
                        continue
                    if lab == "accepted":
                        rows.append(f"write accepted bytes [{ev(pl['lo'])}, {ev(pl['hi'])}) of frame {ev(pl['frame'])}")
                    elif lab == "write_error":
                        rows.append(f"write failed: {KINDS[ev(pl['kind']).as_long() % len(KINDS)]}")
                ob.sample = {"frame_lengths": [str(ev(x)) for x in L], "parked_from": str(ev(rem_lo)) if with_rem else None, "socket": rows,
                             "returned_remove_client": str(ev(eng.as_bool(l.ret.f[0]))), "wbuf_is_some_after": str(ev(eng.discr_is(l.ret.f[1].discr, 1))), "queue_after": [str(ev(x.data[0])) for x in l.ret.f[2].data]}
                break
        pname = ob.name.split(":")[1]
        import replay_e3
        os.makedirs(os.path.join(REPLAYS, "C11"), exist_ok=True)
        pp = os.path.join(REPLAYS, "C11", f"{cname}.{pname}.plan")
        open(pp, "w").write(replay_e3.plan_text("c11_drive", pname, {}, [], {"with_rem": int(with_rem)}))
        status, out = replay_e3.run("c11", pp)
        ob.detail += f" | native replay (c11, stalled client over real sockets): {status}"
        if isinstance(ob.sample, dict):
            ob.sample["native_replay"] = {"status": status, "output": out[-500:]}
        ob.replay = pp
        ob.reproduced = status == "reproduced"
        if not ob.reproduced:
            ob.status = "error"
            ob.detail += " — counterexample did NOT reproduce natively: treated as an encoder/model problem, not reported as a violation"
    specs = [dict(name=f"{cname}:witness", desc="the calls return", bounds=bounds, cons=base + [z3.Or(*[l.taken() for l in done] or [z3.BoolVal(False)])], expect_unsat=False),
             dict(name=f"{cname}:returns", desc="drive_connection panics or exceeds the loop bound", bounds=bounds, cons=base + [other], expect_unsat=True),
             dict(name=f"{cname}:no_torn_frame", desc="the bytes accepted by the socket are not a concatenation of whole frames: a frame is left incomplete and its remainder is not parked, or bytes are sent out of place",
                  bounds=bounds, cons=base + [z3.Or(*torn) if torn else z3.BoolVal(False)], expect_unsat=True, on_model=on_model),
             dict(name=f"{cname}:no_duplicated_or_reordered_frame", desc="a frame is sent again or before an earlier one", bounds=bounds, cons=base + [z3.Or(*dup) if dup else z3.BoolVal(False)], expect_unsat=True, on_model=on_model),
             dict(name=f"{cname}:no_frame_lost_by_a_failed_write", desc="a queued frame is neither sent, nor still queued or parked, although the client is kept", bounds=bounds,
                  cons=base + [z3.Or(*lost) if lost else z3.BoolVal(False)], expect_unsat=True, on_model=on_model)]
    check.discharge_many(e3.res, specs, 120 if ncalls == 1 else 900)


def run(tier, seed, t0):
    e3 = _e3.E3("C11")
    try:
        prologue(e3)
    except _e3.ENC_ERRORS as ex:
        e3.error("c11_prologue", "MIR->SMT encoding of run_transport's prologue", ex)
    shapes = [(1, 1, False), (1, 1, True), (1, 2, True)] if tier == "quick" else [(1, 1, False), (1, 1, True), (1, 2, True), (2, 1, True), (2, 2, False)]
    for nc, nq, wr in shapes:
        try:
            drive(e3, nc, nq, wr)
        except _e3.ENC_ERRORS as ex:
            e3.error(f"c11_drive_c{nc}_q{nq}", "MIR->SMT encoding of drive_connection", ex)
    import c11_loop
    for sc in c11_loop.LOOPS:
        try:
            c11_loop.analyse(e3, sc)
        except _e3.ENC_ERRORS as ex:
            e3.error(sc.name, "MIR->SMT encoding of run_transport's event loop", ex)
    try:
        c11_loop.analyse_wake(e3, c11_loop.WAKE)
    except _e3.ENC_ERRORS as ex:
        e3.error("c11_wake_protocol", "MIR->SMT encoding of the wake-up protocol of the TCP exporter", ex)
    finish("C11", tier, seed, list(e3.res.obligations), t0, ASSUME + ["E3 callee models: " + ", ".join(sorted(e3.models))], sorted(e3.functions),
           explanation="MIR->SMT encoding of the start-up path of the TCP exporter's transport thread over every buffer configuration")


def replay(path):
    import replay_e3
    status, out = replay_e3.run("c11", path)
    print(status, out)
    return 1 if status == "reproduced" else 0

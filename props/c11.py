"""C11 TCP exporter (reduced scope): start-up for every buffer configuration; frame streaming kernel."""
import z3
from common import *
import _e3
from mirsmt import sym, models, check
from mirsmt.sym import Ptr, Agg, Enum, Native, Fork, Diverge, UNIT, bv, Opaque

ASSUME = ["only the prologue of run_transport (up to its first poll) is executed: the mio event loop, accept/close/reset sequences, per-client fan-out, delivery and ordering need a running process and are outside this check",
          "VecDeque::with_capacity(n) panics with 'capacity overflow' when n elements of the element type exceed isize::MAX bytes (documented std behaviour); mio/tracing calls are opaque",
          "size_of::<bytes::Bytes>() = 32"]
ELEM = 32


def prologue(e3):
    P = _e3.program(["metrics-exporter-tcp"])
    hit = {"n": 0}

    def m_with_capacity(eng, ctx, f, path, args, dty):
        n = args[0]
        too_big = z3.UGT(n, bv(((1 << 63) - 1) // ELEM))
        ctx.observe("vecdeque_with_capacity", n=n)
        return Fork([(too_big, Diverge("panic", "VecDeque::with_capacity: capacity overflow")), (z3.Not(too_big), Native("vecdeque", []))])
    m = {r"VecDeque::with_capacity$": m_with_capacity,
         r"^Events::with_capacity$|HashMap::new$|^Vec::new$|^VecDeque::new$": lambda *a: Opaque("container"),
         r"Interest::never$": lambda *a: Diverge("cut", "end of the prologue (first statement of the event loop)")}
    m.update(models.BASE)
    eng = sym.Engine(P, models=m)
    b = P.find_fn("run_transport")
    has = z3.Bool("buffer_size_is_some")
    n = z3.BitVec("buffer_size", 64)
    arg = Enum(z3.If(has, bv(1), bv(0)), {1: Agg({0: n})}, "Option")

    def script():
        r = yield ("call", b, [Opaque("poll"), Opaque("listener"), Opaque("rx"), Opaque("state"), arg])
        return r
    leaves = eng.run_script(1, "run_transport prologue", script)
    e3.absorb(eng)
    panic = z3.Or(*[l.taken() for l in leaves if l.status == "panic"] or [z3.BoolVal(False)])
    reached = z3.Or(*[l.taken() for l in leaves if l.status == "cut"] or [z3.BoolVal(False)])
    bounds = "run_transport from entry to the first statement of its event loop; buffer_size = None or Some(n) for every n <= 2^24"

    def on_model(ob, model):
        some = z3.is_true(model.eval(has, model_completion=True))
        nv = model.eval(n, model_completion=True).as_long()
        ob.sample = {"buffer_size": (f"Some({nv})" if some else "None")}
        import replay_e3
        os.makedirs(os.path.join(REPLAYS, "C11"), exist_ok=True)
        pp = os.path.join(REPLAYS, "C11", "c11_prologue.plan")
        open(pp, "w").write(replay_e3.plan_text("c11_prologue", ob.name.split(":")[1], {}, [], {"has": int(some), "n": nv}))
        status, out = replay_e3.run("c11", pp)
        ob.detail += f" | native replay (c11): {status}"
        ob.sample["native_replay"] = {"status": status, "output": out[-400:]}
        ob.replay = pp
        ob.reproduced = status == "reproduced"
        if not ob.reproduced:
            ob.status = "error"
    specs = [dict(name="c11_prologue:witness", desc="the event loop is reachable for some configuration", bounds=bounds, cons=[reached], expect_unsat=False),
             dict(name="c11_prologue:starts_with_no_limit", desc="the transport thread panics during start-up when no buffer limit is configured (buffer_size = None)", bounds=bounds,
                  cons=[z3.Not(has), panic], expect_unsat=True, on_model=on_model),
             dict(name="c11_prologue:starts_for_every_limit", desc="the transport thread panics during start-up for some Some(n)", bounds=bounds,
                  cons=[has, z3.ULE(n, bv(1 << 24)), panic], expect_unsat=True, on_model=on_model)]
    check.discharge_many(e3.res, specs, 60)


def run(tier, seed, t0):
    e3 = _e3.E3("C11")
    try:
        prologue(e3)
    except sym.Unsupported as ex:
        e3.error("c11_prologue", "MIR->SMT encoding of run_transport's prologue", ex)
    finish("C11", tier, seed, list(e3.res.obligations), t0, ASSUME + ["E3 callee models: " + ", ".join(sorted(e3.models))], sorted(e3.functions),
           explanation="MIR->SMT encoding of the start-up path of the TCP exporter's transport thread over every buffer configuration")


def replay(path):
    import replay_e3
    status, out = replay_e3.run("c11", path)
    print(status, out)
    return 1 if status == "reproduced" else 0

"""C17 Span fields become labels with metric > inner span > outer span precedence (reduced scope: the merging kernels)."""
import re
import z3
from common import *
import _e3
from mirsmt import sym, models, check, models_str as MS, models_coll as MC
from mirsmt.sym import Ptr, Agg, Enum, Native, Fork, UNIT, bv, Opaque, TailCall, Script

ASSUME = ["reduced scope: Labels::{extend_from_labels, extend_from_labels_overwrite}, MetricsLayer::{on_new_span, on_record} and the key-building closure of TracingContext::enhance_key; "
          "tracing-subscriber's span registry is modelled (a span has an optional parent and one Labels extension slot), the dispatcher, thread-local current span, "
          "field visiting (value formatting) and 'other threads' spans' are outside this check",
          "label names and values are abstract identities with symbolic equality; IndexMap by its contract (insert keeps the position of an equal key and replaces its value; entry().or_insert_with() keeps the existing value; "
          "retain keeps order; iteration in insertion order); the label filter is an uninterpreted predicate of (label name)",
          "<= 2 labels per map"]


def LM(pairs):
    """a Labels value: Labels(LinearOwnedReusable<Map>) with the pool wrapper transparent"""
    return Agg({0: MC.kmap(pairs)})


def nm(tag):
    return Native("aname", z3.Int(tag))


def cellmap(ctx, pairs):
    return MC.kmap(tuple((k, MC.new_cell(ctx, v, "lbl")) for k, v in pairs))


def base_models(include):
    def m_retain(eng, ctx, f, path, args, dty):
        mp = args[0]
        m = MC.the_map(eng, ctx, mp)
        clo = args[1]

        def script(c):
            keep = []
            for k, cell in m.data:
                r = yield ("callv", clo, [k, Ptr(("static", cell))])
                b = yield ("branch", eng.as_bool(r))
                if b:
                    keep.append((k, cell))
            yield ("effect", lambda c_: eng.store_ptr(c_, mp, MC.kmap(tuple(keep))))
            return UNIT
        return Script(script)

    def m_extend(eng, ctx, f, path, args, dty):
        mp = args[0]
        elems, maps = MS.chain_elements(eng, ctx, args[1])

        def script(c):
            for x in elems:
                v = x
                for fn in maps:
                    if isinstance(fn, sym.FnItem):
                        if not fn.path.endswith("Label::into_parts"):
                            raise sym.Unsupported(f"map({fn.path})")
                        v = Agg({0: v.data[0], 1: v.data[1]})
                    else:
                        v = yield ("callv", fn, [v])
                key, val = v.f[0], v.f[1]
                cur = yield ("effect", lambda c_: MC.the_map(eng, c_, mp))
                done = False
                for i, (ek, cell) in enumerate(cur.data):
                    hit = yield ("branch", MC.key_eq(eng, c, ek, key))
                    if hit:
                        yield ("effect", lambda c_, cell=cell, val=val: c_.statics.__setitem__(cell, val))
                        done = True
                        break
                if not done:
                    yield ("effect", lambda c_, key=key, val=val: eng.store_ptr(c_, mp, MC.kmap(MC.the_map(eng, c_, mp).data + ((key, MC.new_cell(c_, val, "lbl")),))))
            return UNIT
        return Script(script)

    def m_then(eng, ctx, f, path, args, dty):
        cond, clo = args[0], args[1]

        def script(c):
            b = yield ("branch", eng.as_bool(cond))
            if not b:
                return Enum(0, {}, "Option")
            r = yield ("callv", clo, [])
            return Enum(1, {1: Agg({0: r})}, "Option")
        return Script(script)
    m = dict(MC.COLL)
    m.update({
        r"as AsRef>::as_ref$": lambda eng, ctx, f, path, args, dty: field0(eng, ctx, args[0]),
        r"LinearOwnedReusable as Deref(Mut)?>::deref(_mut)?$": lambda eng, ctx, f, path, args, dty: args[0],
        r"^IndexMap::reserve$": lambda *a: UNIT, r"^std::cmp::max$": lambda eng, ctx, f, path, args, dty: z3.If(z3.UGE(args[0], args[1]), args[0], args[1]),
        r"as Clone>::clone$": lambda eng, ctx, f, path, args, dty: MC.load(eng, ctx, args[0]),
        r"^IndexMap::retain$": m_retain, r"as Extend>::extend$": m_extend, r"core::bool::.*then$|^bool::then$": m_then,
        r"^Key::into_parts$": lambda eng, ctx, f, path, args, dty: Agg({0: MC.load(eng, ctx, args[0]).data[0], 1: MC.load(eng, ctx, args[0]).data[1]}),
        r"^Key::from_parts$": lambda eng, ctx, f, path, args, dty: Native("key", (args[0], args[1])),
        r"^Label::new$": lambda eng, ctx, f, path, args, dty: Native("label", (args[0], args[1])),
        r"should_include_label$": lambda eng, ctx, f, path, args, dty: include(MC.load(eng, ctx, args[2]).data[0].data),
        r"as Iterator>::map$": MS.m_map, r"as Iterator>::collect$": MS.m_collect, r"as Iterator>::next$": MS.m_next, r"as IntoIterator>::into_iter$": MC.m_into_iter,
    })
    m.update(models.BASE)
    return m


def field0(eng, ctx, p):
    """&Labels / &mut Labels / &&mut Labels -> pointer to the map inside"""
    while isinstance(p, Ptr):
        v = eng.load_ptr(ctx, p)
        if isinstance(v, Ptr):
            p = v
            continue
        if isinstance(v, Agg) and 0 in v.f:
            return Ptr(p.root, p.path + (0,))
        return p
    return p


def final_map(ctx_statics, m):
    return [(k, ctx_statics[cell]) for k, cell in m.data]


def merge_kernels(e3):
    """extend_from_labels (child keeps its own values) and extend_from_labels_overwrite (a later record replaces)"""
    P = _e3.program(["metrics-tracing-context"])
    include = z3.Function("filter_admits", z3.IntSort(), z3.BoolSort())
    for fn, overwrite in (("extend_from_labels", False), ("extend_from_labels_overwrite", True)):
        for ns, no in ((1, 1), (2, 1), (1, 2), (2, 2), (0, 2)):
            eng = sym.Engine(P, models=base_models(include), loop_bound=6, max_paths=5000)
            eng.merging = False
            ctx0 = sym.Ctx(eng, 1)
            sk = [z3.Int(f"self_name{i}") for i in range(ns)]
            sv = [z3.Int(f"self_val{i}") for i in range(ns)]
            ok_ = [z3.Int(f"other_name{i}") for i in range(no)]
            ov = [z3.Int(f"other_val{i}") for i in range(no)]
            base = [z3.Distinct(*sk)] if ns > 1 else []
            base += [z3.Distinct(*ok_)] if no > 1 else []
            ctx0.statics = {}
            ctx0.statics["self"] = Agg({0: cellmap(ctx0, [(Native("aname", sk[i]), Native("aval", sv[i])) for i in range(ns)])})
            ctx0.statics["other"] = Agg({0: cellmap(ctx0, [(Native("aname", ok_[i]), Native("aval", ov[i])) for i in range(no)])})
            b = P.find("Labels", fn)

            def script():
                yield ("call", b, [Ptr(("static", "self")), Ptr(("static", "other"))])
                s = yield ("getstatic", "self")
                rows = []
                for k, cell in s.f[0].data:
                    v = yield ("getstatic", cell)
                    rows.append((k, v))
                return Native("rows", tuple(rows))
            leaves = eng.run_script(1, fn, script, ctx0=ctx0)
            e3.absorb(eng)
            done = [l for l in leaves if l.status == "done"]
            other = z3.Or(*[l.taken() for l in leaves if l.status != "done"] or [z3.BoolVal(False)])
            bad_val, bad_dup, bad_missing = [], [], []
            for l in done:
                rows = l.ret.data
                names = [k.data for k, v in rows]
                vals = [v.data for k, v in rows]
                # no name twice
                dup = z3.Or(*[names[i] == names[j] for i in range(len(rows)) for j in range(i + 1, len(rows))] or [z3.BoolVal(False)])
                # reference: value of name n
                def ref(n):
                    own = None
                    r = z3.IntVal(-1)
                    for i in reversed(range(no)):
                        r = z3.If(ok_[i] == n, ov[i], r)
                    o = r
                    s_ = z3.IntVal(-1)
                    for i in reversed(range(ns)):
                        s_ = z3.If(sk[i] == n, sv[i], s_)
                    in_self = z3.Or(*[sk[i] == n for i in range(ns)] or [z3.BoolVal(False)])
                    in_other = z3.Or(*[ok_[i] == n for i in range(no)] or [z3.BoolVal(False)])
                    if overwrite:
                        return z3.If(in_other, o, s_)
                    return z3.If(in_self, s_, o)
                wrong = z3.Or(*[vals[i] != ref(names[i]) for i in range(len(rows))] or [z3.BoolVal(False)])
                allnames = sk + ok_
                missing = z3.Or(*[z3.Not(z3.Or(*[names[j] == n for j in range(len(rows))] or [z3.BoolVal(False)])) for n in allnames] or [z3.BoolVal(False)])
                bad_val.append(z3.And(l.taken(), wrong))
                bad_dup.append(z3.And(l.taken(), dup))
                bad_missing.append(z3.And(l.taken(), missing))
            cname = f"c17_{fn}_{ns}_{no}"
            what = "a later record() replaces the span's earlier value" if overwrite else "the child span keeps its own value over the parent's (inner span wins)"
            bounds = f"Labels::{fn}: own map with {ns} label(s), other map with {no}; names and values symbolic (names within a map distinct, across maps arbitrary); {len(done)} paths"
            specs = [dict(name=f"{cname}:witness", desc="returns", bounds=bounds, cons=base + [z3.Or(*[l.taken() for l in done] or [z3.BoolVal(False)])], expect_unsat=False),
                     dict(name=f"{cname}:returns", desc="panics or exceeds a loop bound", bounds=bounds, cons=base + [other], expect_unsat=True),
                     dict(name=f"{cname}:precedence", desc=f"a label's value after the merge is not the one the rule gives: {what}", bounds=bounds, cons=base + [z3.Or(*bad_val)], expect_unsat=True),
                     dict(name=f"{cname}:no_duplicate_names", desc="the merged map holds a name twice", bounds=bounds, cons=base + [z3.Or(*bad_dup)], expect_unsat=True),
                     dict(name=f"{cname}:nothing_dropped", desc="a label of either map is missing from the merged map", bounds=bounds, cons=base + [z3.Or(*bad_missing)], expect_unsat=True)]
            check.discharge_many(e3.res, specs, 120)


SHAPES = ((0, 1), (1, 0), (1, 1), (2, 1), (1, 2), (2, 2))


def enhance(e3):
    """the key-building closure of enhance_key: admitted span labels, overridden by the metric's own labels"""
    P = _e3.program(["metrics-tracing-context"])
    include = z3.Function("filter_admits", z3.IntSort(), z3.BoolSort())
    body = [b for n, b in P.bodies.items() if n.endswith("enhance_key::{closure#0}::{closure#0}")][0]
    for nsp, nml in SHAPES:
        eng = sym.Engine(P, models=base_models(include), loop_bound=6, max_paths=5000)
        eng.merging = False
        ctx0 = sym.Ctx(eng, 1)
        sk = [z3.Int(f"span_name{i}") for i in range(nsp)]
        sv = [z3.Int(f"span_val{i}") for i in range(nsp)]
        mk = [z3.Int(f"metric_name{i}") for i in range(nml)]
        mv = [z3.Int(f"metric_val{i}") for i in range(nml)]
        base = ([z3.Distinct(*sk)] if nsp > 1 else []) + ([z3.Distinct(*mk)] if nml > 1 else [])
        key = Native("key", (Native("aname", z3.Int("metric")), MS.lvec(tuple(Native("label", (Native("aname", mk[i]), Native("aval", mv[i]))) for i in range(nml)))))
        ctx0.statics = {"key": key, "tc": Agg({0: Opaque("inner"), 1: Opaque("filter")})}
        ctx0.statics["keyref"] = Ptr(("static", "key"))
        ctx0.statics["tcref"] = Ptr(("static", "tc"))
        span = cellmap(ctx0, [(Native("aname", sk[i]), Native("aval", sv[i])) for i in range(nsp)])
        clo = sym.Closure(body.args[0][1].lstrip("&").strip() if False else [k for k in P.closures if P.closures[k] is body][0], {"key": Ptr(("static", "keyref")), "self": Ptr(("static", "tcref"))})
        ctx0.statics["clo"] = clo

        def script():
            r = yield ("call", body, [Ptr(("static", "clo")), span])
            return r
        leaves = eng.run_script(1, "enhance_key closure", script, ctx0=ctx0)
        e3.absorb(eng)
        done = [l for l in leaves if l.status == "done"]
        other = z3.Or(*[l.taken() for l in leaves if l.status != "done"] or [z3.BoolVal(False)])
        bad = {"precedence": [], "dup": [], "filter": [], "unchanged": [], "kept": []}
        for l in done:
            r = l.ret
            if not isinstance(r, Enum) or not isinstance(r.discr, int):
                bad["unchanged"].append(l.taken())
                continue
            if nsp == 0:
                bad["unchanged"].append(z3.And(l.taken(), z3.BoolVal(r.discr != 0)))
                continue
            if r.discr == 0:
                bad["unchanged"].append(l.taken())        # span labels present: a new key must be built
                continue
            k = r.v[1].f[0]
            labs = k.data[1].data
            names = [x.data[0].data for x in labs]
            vals = [x.data[1].data for x in labs]
            bad["dup"].append(z3.And(l.taken(), z3.Or(*[names[i] == names[j] for i in range(len(labs)) for j in range(i + 1, len(labs))] or [z3.BoolVal(False)])))

            def ref(n):
                s_ = z3.IntVal(-1)
                for i in reversed(range(nsp)):
                    s_ = z3.If(sk[i] == n, sv[i], s_)
                m_ = s_
                for i in reversed(range(nml)):
                    m_ = z3.If(mk[i] == n, mv[i], m_)
                return m_
            bad["precedence"].append(z3.And(l.taken(), z3.Or(*[vals[i] != ref(names[i]) for i in range(len(labs))] or [z3.BoolVal(False)])))
            is_metric = lambda n: z3.Or(*[mk[i] == n for i in range(nml)] or [z3.BoolVal(False)])
            # a span field that the filter rejects appears only if the metric itself has a label of that name
            bad["filter"].append(z3.And(l.taken(), z3.Or(*[z3.And(z3.Not(include(names[i])), z3.Not(is_metric(names[i]))) for i in range(len(labs))] or [z3.BoolVal(False)])))
            # every metric label and every admitted span field is present
            present = lambda n: z3.Or(*[names[j] == n for j in range(len(labs))] or [z3.BoolVal(False)])
            bad["kept"].append(z3.And(l.taken(), z3.Or(*([z3.Not(present(mk[i])) for i in range(nml)] + [z3.And(include(sk[i]), z3.Not(present(sk[i]))) for i in range(nsp)]) or [z3.BoolVal(False)])))
        cname = f"c17_enhance_key_{nsp}_{nml}"
        bounds = f"the key-building closure of enhance_key: {nsp} span label(s), {nml} metric label(s); names, values and the filter's verdict per name symbolic; {len(done)} paths"
        specs = [dict(name=f"{cname}:witness", desc="returns", bounds=bounds, cons=base + [z3.Or(*[l.taken() for l in done] or [z3.BoolVal(False)])], expect_unsat=False),
                 dict(name=f"{cname}:returns", desc="panics or exceeds a loop bound", bounds=bounds, cons=base + [other], expect_unsat=True),
                 dict(name=f"{cname}:unchanged_without_span_labels", desc="a new key is built although there are no span labels, or none although there are", bounds=bounds, cons=base + [z3.Or(*bad["unchanged"] or [z3.BoolVal(False)])], expect_unsat=True),
                 dict(name=f"{cname}:metric_label_wins", desc="for a repeated name the metric's own label does not win over the span field", bounds=bounds, cons=base + [z3.Or(*bad["precedence"] or [z3.BoolVal(False)])], expect_unsat=True),
                 dict(name=f"{cname}:no_duplicate_names", desc="the resulting key contains a label name twice", bounds=bounds, cons=base + [z3.Or(*bad["dup"] or [z3.BoolVal(False)])], expect_unsat=True),
                 dict(name=f"{cname}:filter_respected", desc="a span field that the label filter rejects reaches the key", bounds=bounds, cons=base + [z3.Or(*bad["filter"] or [z3.BoolVal(False)])], expect_unsat=True),
                 dict(name=f"{cname}:nothing_dropped", desc="a metric label or an admitted span field is missing from the key", bounds=bounds, cons=base + [z3.Or(*bad["kept"] or [z3.BoolVal(False)])], expect_unsat=True)]
        check.discharge_many(e3.res, specs, 120)


def span_hooks(e3):
    """MetricsLayer::on_new_span / on_record on a modelled span registry: which labels a span ends up with"""
    P = _e3.program(["metrics-tracing-context"])
    include = z3.Function("filter_admits", z3.IntSort(), z3.BoolSort())
    new_b = [b for b in P.by_last["on_new_span"] if b.impl and b.impl[1] == "MetricsLayer"][0]
    rec_b = [b for b in P.by_last["on_record"] if b.impl and b.impl[1] == "MetricsLayer"][0]
    for which in ("new_span_with_parent", "new_span_without_parent", "record_on_span_with_labels", "record_on_span_without_labels"):
        fk, fv = z3.Int("field_name"), z3.Int("field_val")          # the fields of this call (attributes / record)
        ek, ev = z3.Int("existing_name"), z3.Int("existing_val")      # the parent's (on_new_span) or the span's own earlier (on_record) label
        m = base_models(include)

        def m_from_record(eng, ctx, f, path, args, dty):
            return Agg({0: cellmap(ctx, [(Native("aname", fk), Native("aval", fv))])})

        def m_get_labels(slot):
            def h(eng, ctx, f, path, args, dty):
                e = MC.load(eng, ctx, args[0])
                name = f"labels_{e.data}"
                if name in ctx.statics and ctx.statics[name] is not None:
                    return Enum(1, {1: Agg({0: Ptr(("static", name))})}, "Option")
                return Enum(0, {}, "Option")
            return h

        def m_insert_labels(eng, ctx, f, path, args, dty):
            e = MC.load(eng, ctx, args[0])
            old = ctx.statics.get(f"labels_{e.data}")
            ctx.statics[f"labels_{e.data}"] = args[1]
            return Enum(0, {}, "Option") if old is None else Enum(1, {1: Agg({0: old})}, "Option")
        has_parent = which == "new_span_with_parent"
        m.update({r"Context::span$": lambda *a: Enum(1, {1: Agg({0: Native("span", "child")})}, "Option"),
                  r"SpanRef::parent$": lambda *a: (Enum(1, {1: Agg({0: Native("span", "parent")})}, "Option") if has_parent else Enum(0, {}, "Option")),
                  r"SpanRef::extensions(_mut)?$": lambda eng, ctx, f, path, args, dty: Native("ext", MC.load(eng, ctx, args[0]).data),
                  r"Extensions(Mut)?::get(_mut)?$": m_get_labels(None), r"ExtensionsMut::insert$": m_insert_labels,
                  r"Attributes::values$|^Record::new$": lambda *a: Opaque("fields"), r"^Labels::from_record$": m_from_record})
        m2 = dict(m)
        m2.update(models.BASE)
        eng = sym.Engine(P, models=m2, loop_bound=6, max_paths=5000)
        eng.merging = False
        ctx0 = sym.Ctx(eng, 1)
        ctx0.statics = {"labels_child": None, "labels_parent": None}
        if which == "new_span_with_parent":
            ctx0.statics["labels_parent"] = Agg({0: cellmap(ctx0, [(Native("aname", ek), Native("aval", ev))])})
        if which == "record_on_span_with_labels":
            ctx0.statics["labels_child"] = Agg({0: cellmap(ctx0, [(Native("aname", ek), Native("aval", ev))])})
        body = new_b if which.startswith("new_span") else rec_b
        args = [Opaque("layer"), Opaque("attrs"), Opaque("id"), Opaque("cx")] if body is new_b else [Opaque("layer"), Opaque("id"), Opaque("record"), Opaque("cx")]

        def script():
            yield ("call", body, args)
            lab = yield ("getstatic", "labels_child")
            rows = []
            if lab is not None:
                for k, cell in lab.f[0].data:
                    v = yield ("getstatic", cell)
                    rows.append((k, v))
            return Native("rows", (lab is not None, tuple(rows)))
        leaves = eng.run_script(1, which, script, ctx0=ctx0)
        e3.absorb(eng)
        done = [l for l in leaves if l.status == "done"]
        other = z3.Or(*[l.taken() for l in leaves if l.status != "done"] or [z3.BoolVal(False)])
        bad = []
        for l in done:
            present, rows = l.ret.data
            if not present:
                bad.append(l.taken())
                continue
            names = [k.data for k, v in rows]
            vals = [v.data for k, v in rows]
            has = lambda n: z3.Or(*[names[i] == n for i in range(len(rows))] or [z3.BoolVal(False)])
            val_of = lambda n: (lambda r: r)(__import__("functools").reduce(lambda acc, i: z3.If(names[i] == n, vals[i], acc), reversed(range(len(rows))), z3.IntVal(-1)))
            conds = [has(fk), z3.Not(z3.Or(*[names[i] == names[j] for i in range(len(rows)) for j in range(i + 1, len(rows))] or [z3.BoolVal(False)]))]
            if which in ("new_span_with_parent", "record_on_span_with_labels"):
                conds.append(has(ek))
                # on_new_span: the span's own field wins over the parent's; on_record: the new value replaces the earlier one
                conds.append(val_of(fk) == fv)
                conds.append(z3.Implies(ek != fk, val_of(ek) == ev))
                conds.append(z3.BoolVal(len(rows) <= 2))
            else:
                conds.append(val_of(fk) == fv)
                conds.append(z3.BoolVal(len(rows) == 1))
            bad.append(z3.And(l.taken(), z3.Not(z3.And(*conds))))
        cname = f"c17_{which}"
        bounds = f"MetricsLayer::{'on_new_span' if body is new_b else 'on_record'} ({which.replace('_', ' ')}); one field in this call, one earlier/parent label; names and values symbolic; {len(done)} paths"
        specs = [dict(name=f"{cname}:witness", desc="returns", bounds=bounds, cons=[z3.Or(*[l.taken() for l in done] or [z3.BoolVal(False)])], expect_unsat=False),
                 dict(name=f"{cname}:returns", desc="panics or exceeds a loop bound", bounds=bounds, cons=[other], expect_unsat=True),
                 dict(name=f"{cname}:span_labels_follow_the_rule", desc="the labels stored on the span are not: this call's fields, plus the parent's (new span; the span's own win) or the span's earlier ones (record; the new value wins), each name once",
                      bounds=bounds, cons=[z3.Or(*bad or [z3.BoolVal(False)])], expect_unsat=True)]
        check.discharge_many(e3.res, specs, 120)


def field_values(e3):
    """`impl Visit for Labels`: what a span field of each value type becomes as a label value (str as is, bool as "true"/"false", i64/u64 as
    their decimal text, anything else as its Debug text), stored under the field's name, replacing an earlier value of that name"""
    P = _e3.program(["metrics-tracing-context"])
    include = z3.Function("filter_admits", z3.IntSort(), z3.BoolSort())
    for ty in ("str", "bool", "i64", "u64", "debug"):
        for existing in (False, True):
            b = [x for x in P.by_last[f"record_{ty}"] if x.impl and x.impl[1] == "Labels"][0]
            fk, ek, ev = z3.Int("field_name"), z3.Int("existing_name"), z3.Int("existing_val")
            val = {"str": Native("aval", z3.Int("str_value")), "bool": z3.Bool("bool_value"), "i64": z3.BitVec("i64_value", 64), "u64": z3.BitVec("u64_value", 64), "debug": Native("dynval", 0)}[ty]
            m = base_models(include)
            m.update({
                r"Field::name$": lambda eng, ctx, f, path, args, dty: Native("aname", fk),
                r" as Into(<.*>)?>::into$|as From(<.*>)?>::from$|as ToOwned>::to_owned$": lambda eng, ctx, f, path, args, dty: args[0],
                r"^(itoa::)?Buffer::new$": lambda *a: Opaque("itoa buffer"),
                r"^(itoa::)?Buffer::format$": lambda eng, ctx, f, path, args, dty: Native("numtext", (re.search(r"format::<(\w+)>", path).group(1) if re.search(r"format::<(\w+)>", path) else "?", args[1])),
                r"Argument::new_debug$": lambda eng, ctx, f, path, args, dty: Native("dbgarg", MC.load(eng, ctx, args[0])),
                r"Argument::new_display$": lambda eng, ctx, f, path, args, dty: Native("dsparg", MC.load(eng, ctx, args[0])),
                r"^Arguments::new$": lambda eng, ctx, f, path, args, dty: Native("fmtargs2", (args[0], tuple((lambda a: [a.f[i] for i in sorted(a.f)] if isinstance(a, Agg) else [a])(MC.load(eng, ctx, args[1]))))),
                r"^format$|fmt::format$": lambda eng, ctx, f, path, args, dty: Native("formatted", args[0]),
                r"LinearOwnedReusable as Deref(Mut)?>::deref(_mut)?$": lambda eng, ctx, f, path, args, dty: args[0],
            })
            m2 = dict(models.BASE)
            m2.update(m)
            eng = sym.Engine(P, models=m2, loop_bound=4, max_paths=2000)
            eng.merging = False
            ctx0 = sym.Ctx(eng, 1)
            ctx0.statics = {"field": Native("field", fk)}
            ctx0.statics["labels"] = Agg({0: cellmap(ctx0, [(Native("aname", ek), Native("aval", ev))] if existing else [])})
            if ty == "debug":
                ctx0.statics["dyn"] = val

            def script():
                yield ("call", b, [Ptr(("static", "labels")), Ptr(("static", "field")), (Ptr(("static", "dyn")) if ty == "debug" else val)])
                s_ = yield ("getstatic", "labels")
                rows = []
                for k, cell in s_.f[0].data:
                    v = yield ("getstatic", cell)
                    rows.append((k, v))
                return Native("rows", tuple(rows))
            leaves = eng.run_script(1, f"record_{ty}", script, ctx0=ctx0)
            e3.absorb(eng)
            done = [l for l in leaves if l.status == "done"]
            other = z3.Or(*[l.taken() for l in leaves if l.status != "done"] or [z3.BoolVal(False)])

            def text_ok(v, l):
                """condition under which the stored value `v` is the text the property prescribes for this field value"""
                if ty == "str":
                    return z3.BoolVal(isinstance(v, Native) and v.kind == "aval" and v.data is val.data)
                if ty == "bool":
                    if not (isinstance(v, Native) and v.kind in ("str", "sstr")):
                        return z3.BoolVal(False)
                    txt = v.data[0] if v.kind == "str" else "".join(chr(x.as_long()) for x in v.data if z3.is_bv_value(x))
                    return z3.If(val, z3.BoolVal(txt == "true"), z3.BoolVal(txt == "false"))
                if ty in ("i64", "u64"):
                    if not (isinstance(v, Native) and v.kind == "numtext" and v.data[0] == ty and z3.is_expr(v.data[1])):
                        return z3.BoolVal(False)
                    return v.data[1] == val
                if not (isinstance(v, Native) and v.kind == "formatted" and isinstance(v.data, Native) and v.data.kind == "fmtargs2"):
                    return z3.BoolVal(False)
                tpl, fargs = v.data.data
                one = isinstance(tpl, Native) and tpl.kind == "str" and MS.unescape_rust(tpl.data[0]) in ("\xc0", "\xc0\x00")
                return z3.BoolVal(bool(one) and len(fargs) == 1 and isinstance(fargs[0], Native) and fargs[0].kind == "dbgarg" and fargs[0].data is val)
            bad = []
            for l in done:
                rows = l.ret.data
                names = [k.data for k, v in rows]
                hit = [z3.And(names[i] == fk, text_ok(rows[i][1], l)) for i in range(len(rows))]
                once = z3.Sum(*[z3.If(names[i] == fk, 1, 0) for i in range(len(rows))], z3.IntVal(0)) == 1
                kept = z3.BoolVal(True)
                if existing:
                    kept = z3.Implies(ek != fk, z3.Or(*[z3.And(names[i] == ek, z3.BoolVal(isinstance(rows[i][1], Native) and rows[i][1].kind == "aval" and rows[i][1].data is ev)) for i in range(len(rows))] or [z3.BoolVal(False)]))
                size = z3.BoolVal(len(rows) == (2 if existing else 1)) if not existing else z3.If(ek == fk, z3.BoolVal(len(rows) == 1), z3.BoolVal(len(rows) == 2))
                bad.append(z3.And(l.taken(), z3.Not(z3.And(z3.Or(*hit or [z3.BoolVal(False)]), once, kept, size))))
            cname = f"c17_field_{ty}_{'over_existing' if existing else 'fresh'}"
            bounds = f"<Labels as Visit>::record_{ty}(field, value) on a map with {'one earlier entry (name possibly the same)' if existing else 'no entries'}; field name and value symbolic; {len(done)} paths"
            specs = [dict(name=f"{cname}:witness", desc="returns", bounds=bounds, cons=[z3.Or(*[l.taken() for l in done] or [z3.BoolVal(False)])], expect_unsat=False),
                     dict(name=f"{cname}:returns", desc="panics or exceeds a loop bound", bounds=bounds, cons=[other], expect_unsat=True),
                     dict(name=f"{cname}:field_value_text", desc="the label stored for the field is not, under the field's name and exactly once, the text the value type prescribes "
                          "(str as is, bool as true/false, integers in decimal, anything else by Debug), or an earlier label of another name is lost", bounds=bounds, cons=[z3.Or(*bad or [z3.BoolVal(False)])], expect_unsat=True)]
            check.discharge_many(e3.res, specs, 60)


def tree_confirm(tname, ops, kind, fld, mk, mv, include):
    """replay of a solver model of a span tree: the same tree, names, values and filter verdicts through the public API"""
    def h(ob, model):
        import replay_e3
        ev = lambda t: model.eval(t, model_completion=True)
        ncls, vcls = {}, {}
        nidx = lambda t: ncls.setdefault(ev(t).as_long(), len(ncls))
        vidx = lambda t: vcls.setdefault(ev(t).as_long(), len(vcls))
        inp = {"nops": len(ops), "kind": ("counter", "gauge", "histogram").index(kind)}
        for i, op in enumerate(ops):
            inp[f"op{i}_kind"] = ("new", "enter", "exit", "record", "emit", "thread").index(op[0])
            if op[0] == "thread":
                inp[f"op{i}_thread"] = op[1]
            if op[0] in ("new", "enter", "record"):
                inp[f"op{i}_span"] = op[1]
            if op[0] == "new":
                inp[f"op{i}_parent"] = 0 if op[3] == "ctx" else (1 if op[3] == "root" else 2 + op[3][1])
            if i in fld:
                inp[f"op{i}_name"], inp[f"op{i}_val"] = nidx(fld[i][0]), vidx(fld[i][1])
            if op[0] == "emit":
                inp[f"op{i}_nl"] = op[1]
        for j in range(len(mk)):
            inp[f"m{j}_name"], inp[f"m{j}_val"] = nidx(mk[j]), vidx(mv[j])
        for val, idx in ncls.items():
            inp[f"admit_{idx}"] = 1 if z3.is_true(ev(include(z3.IntVal(val)))) else 0
        pname = ob.name.split(":")[1]
        os.makedirs(os.path.join(REPLAYS, "C17"), exist_ok=True)
        pp = os.path.join(REPLAYS, "C17", f"{ob.name.replace(':', '.')}.plan")
        open(pp, "w").write(replay_e3.plan_text("c17t", pname, {}, [], inp))
        status, out = replay_e3.run("c17t", pp)
        ob.sample = {"tree": tname, "inputs": inp, "native_replay": {"status": status, "output": out[-600:]}}
        ob.detail += f" | native replay of the tree through the public API (real tracing registry): {status}"
        ob.replay = pp
        ob.reproduced = status == "reproduced"
        if not ob.reproduced:
            ob.status = "error"
            ob.detail += " — not violated natively: treated as an encoder/model problem, not reported as a violation"
    return h


def native_confirm(ob, model):
    """the rule that failed in the encoding must also fail in the native battery (public API, real tracing registry)"""
    import replay_e3
    pname = ob.name.split(":")[1]
    os.makedirs(os.path.join(REPLAYS, "C17"), exist_ok=True)
    pp = os.path.join(REPLAYS, "C17", f"{ob.name.replace(':', '.')}.plan")
    open(pp, "w").write(replay_e3.plan_text("c17", pname, {}, [], {}))
    vals = {}
    for d in model.decls():
        if d.arity() == 0:
            try:
                vals[d.name()] = model[d].as_long()
            except Exception:
                pass
    status, out = replay_e3.run("c17", pp)
    ob.sample = {"symbolic_inputs": {k: vals[k] for k in sorted(vals)[:16]}, "native_replay": {"status": status, "output": out[-500:]}}
    ob.detail += f" | native confirmation (c17 battery through the public API): {status}"
    ob.replay = pp
    ob.reproduced = status == "reproduced"
    if not ob.reproduced:
        ob.status = "error"
        ob.detail += " — the rule is not violated natively: treated as an encoder/model problem, not reported as a violation"


_orig_discharge = check.discharge_many


def _discharge_with_replay(res, specs, timeout=120):
    for sp in specs:
        if sp.get("expect_unsat", True) and not sp["name"].endswith(":returns") and "on_model" not in sp:
            sp["on_model"] = native_confirm
    return _orig_discharge(res, specs, timeout)


def run(tier, seed, t0):
    check.discharge_many = _discharge_with_replay
    e3 = _e3.E3("C17")
    for nm_, fn in (("c17_merge", merge_kernels), ("c17_enhance_key", enhance), ("c17_span_hooks", span_hooks), ("c17_field_values", field_values), ("c17_span_tree", lambda e: span_tree(e, tier == "thorough"))):
        if os.environ.get("VERIF_C17_ONLY") and os.environ["VERIF_C17_ONLY"] != nm_:
            continue
        try:
            fn(e3)
        except _e3.ENC_ERRORS as ex:
            e3.error(nm_, "MIR->SMT encoding of metrics-tracing-context", ex)
    finish("C17", tier, seed, list(e3.res.obligations), t0, ASSUME + ["E3 callee models: " + ", ".join(sorted(e3.models))], sorted(e3.functions),
           explanation="MIR->SMT encoding of the label-merging kernels of metrics-tracing-context against the precedence rules")


def replay(path):
    import replay_e3
    status, out = replay_e3.run("c17t" if open(path).read().startswith("scenario c17t") else "c17", path)
    print(status, out)
    return 1 if status == "reproduced" else 0


# ---------------------------------------------------------------------------------------------------------------------
# span trees: the layer's hooks and the recorder's key enhancement executed end to end over a modelled span registry

# ops: ("new", span, nfields, parent) with parent in "ctx" (contextual: the current span, if any), "root" (explicit `parent: None`)
#      or ("of", span) (explicit parent); ("enter", span); ("exit",); ("record", span); ("emit", nlabels)
TREES = {
    "child_then_record_on_parent": [("new", 1, 1, "ctx"), ("enter", 1), ("new", 2, 1, "ctx"), ("record", 1), ("enter", 2), ("emit", 1)],
    "explicit_root_while_entered": [("new", 1, 1, "ctx"), ("enter", 1), ("new", 2, 1, "root"), ("enter", 2), ("emit", 1)],
    "explicit_parent_not_entered": [("new", 1, 1, "ctx"), ("new", 2, 1, ("of", 1)), ("enter", 2), ("emit", 1)],
    "fieldless_child_then_record_on_parent": [("new", 1, 1, "ctx"), ("enter", 1), ("new", 2, 0, "ctx"), ("record", 1), ("enter", 2), ("emit", 1)],
    "fieldless_child_records_later": [("new", 1, 1, "ctx"), ("enter", 1), ("new", 2, 0, "ctx"), ("record", 1), ("record", 2), ("enter", 2), ("emit", 0)],
    "no_current_span": [("new", 1, 1, "ctx"), ("emit", 1)],
    "entered_then_exited": [("new", 1, 1, "ctx"), ("enter", 1), ("exit",), ("emit", 1)],
    "fieldless_span_only": [("new", 1, 0, "ctx"), ("enter", 1), ("emit", 1)],
    "record_replaces_own_value": [("new", 1, 1, "ctx"), ("record", 1), ("record", 1), ("enter", 1), ("emit", 1)],
    # ("thread", t): the following operations run on thread t (each thread has its own current span; a span handle can be used anywhere)
    "emit_record_elsewhere_emit": [("new", 1, 1, "ctx"), ("enter", 1), ("emit", 1), ("thread", 2), ("record", 1), ("thread", 1), ("emit", 1)],
    "two_threads_own_spans": [("new", 1, 1, "ctx"), ("enter", 1), ("thread", 2), ("new", 2, 1, "ctx"), ("enter", 2), ("emit", 1), ("thread", 1), ("emit", 1)],
    "emit_twice_with_record_between": [("new", 1, 1, "ctx"), ("enter", 1), ("emit", 0), ("record", 1), ("emit", 0), ("new", 2, 0, "ctx"), ("enter", 2), ("emit", 1)],
}
TREES_THOROUGH = {
    "three_levels": [("new", 1, 1, "ctx"), ("enter", 1), ("new", 2, 1, "ctx"), ("enter", 2), ("new", 3, 1, "ctx"), ("record", 2), ("enter", 3), ("emit", 1)],
    "three_levels_fieldless_middle": [("new", 1, 1, "ctx"), ("enter", 1), ("new", 2, 0, "ctx"), ("enter", 2), ("new", 3, 1, "ctx"), ("record", 1), ("enter", 3), ("emit", 2)],
    "sibling_of_entered": [("new", 1, 1, "ctx"), ("enter", 1), ("new", 2, 1, "ctx"), ("new", 3, 1, "ctx"), ("record", 2), ("enter", 3), ("emit", 1)],
    "explicit_parent_while_other_entered": [("new", 1, 1, "ctx"), ("new", 2, 1, "ctx"), ("enter", 2), ("new", 3, 1, ("of", 1)), ("enter", 3), ("emit", 1)],
}


def span_tree(e3, thorough):
    P = _e3.program(["metrics-tracing-context"])
    include = z3.Function("filter_admits", z3.IntSort(), z3.BoolSort())
    on_layer = [b for b in P.by_last["on_layer"] if b.impl and b.impl[1] == "MetricsLayer"][0]
    new_b = [b for b in P.by_last["on_new_span"] if b.impl and b.impl[1] == "MetricsLayer"][0]
    rec_b = [b for b in P.by_last["on_record"] if b.impl and b.impl[1] == "MetricsLayer"][0]
    reg_b = {k: [b for b in P.by_last[f"register_{k}"] if b.impl and "TracingContext" in str(b.impl)][0] for k in ("counter", "gauge", "histogram")}
    trees = dict(TREES)
    if thorough:
        trees.update(TREES_THOROUGH)
    for ti, (tname, ops) in enumerate(trees.items()):
        kind = ("counter", "gauge", "histogram")[ti % 3]
        # ---- the concrete shape of the tree (the registry's own bookkeeping): parents, the entered stack before each op
        parents, stacks, curs, thr, cur_thread = {}, {1: []}, [], [], 1
        for op in ops:
            if op[0] == "thread":
                cur_thread = op[1]
                stacks.setdefault(cur_thread, [])
            stack = stacks[cur_thread]
            thr.append(cur_thread)
            curs.append(stack[-1] if stack else None)
            if op[0] == "new":
                parents[op[1]] = (stack[-1] if stack else None) if op[3] == "ctx" else (None if op[3] == "root" else op[3][1])
            elif op[0] == "enter":
                stack.append(op[1])
            elif op[0] == "exit":
                stack.pop()
        sids = sorted(parents)
        fld = {}      # op index -> (name, value) of the field carried by that call

        def mkfield(i):
            fld[i] = (z3.Int(f"field_name_op{i}"), z3.Int(f"field_val_op{i}"))
            return fld[i]
        nml = max(op[1] for op in ops if op[0] == "emit")
        mk = [z3.Int(f"metric_name{i}") for i in range(nml)]
        mv = [z3.Int(f"metric_val{i}") for i in range(nml)]
        base = [z3.Distinct(*mk)] if nml > 1 else []
        m = base_models(include)

        def fields_map(ctx, fs):
            return Agg({0: cellmap(ctx, [(Native("aname", k), Native("aval", v)) for k, v in fs])})

        def opt(v):
            return Enum(0, {}, "Option") if v is None else Enum(1, {1: Agg({0: v})}, "Option")

        def span_of(eng, ctx, idv):
            n = MC.load(eng, ctx, idv).data
            return opt(Native("span", n) if n in ctx.statics["w_spans"] else None)

        def m_get_labels(eng, ctx, f, path, args, dty):
            e = MC.load(eng, ctx, args[0])
            name = f"labels_{e.data}"
            return opt(Ptr(("static", name)) if ctx.statics.get(name) is not None else None)

        def m_insert_labels(eng, ctx, f, path, args, dty):
            e = MC.load(eng, ctx, args[0])
            old = ctx.statics.get(f"labels_{e.data}")
            ctx.statics[f"labels_{e.data}"] = args[1]
            return opt(old)

        def m_downcast(eng, ctx, f, path, args, dty):
            return opt(Ptr(("static", "layer"))) if "MetricsLayer" in path else opt(Ptr(("static", "registry")))

        def m_get_default(eng, ctx, f, path, args, dty):
            clo = args[0]

            def script(c):
                r = yield ("callv", clo, [Ptr(("static", "dispatch"))])
                return r
            return Script(script)

        def m_scope(eng, ctx, f, path, args, dty):
            n = MC.load(eng, ctx, args[0]).data
            par = dict(ctx.statics["w_parents"])
            items = []
            while n is not None:
                items.append(Native("span", n))
                n = par.get(n)
            return Native("liter", (tuple(items), 0))

        def m_register(eng, ctx, f, path, args, dty):
            ctx.observe("inner_register", key=MC.load(eng, ctx, args[1]), kind=path.rsplit("::", 1)[-1], emit=ctx.statics.get("w_emit"))
            return Opaque("handle")
        cur_id = lambda ctx: ctx.statics["w_cur"]
        idptr = lambda n: Ptr(("static", f"id_{n}"))
        m.update({
            r"Context::span$|LookupSpan(<'_>)?>::span$": lambda eng, ctx, f, path, args, dty: span_of(eng, ctx, args[1]),
            r"Context::lookup_current$": lambda eng, ctx, f, path, args, dty: opt(Native("span", cur_id(ctx)) if cur_id(ctx) is not None else None),
            r"(Context|Dispatch)::current_span$": lambda eng, ctx, f, path, args, dty: Native("current", cur_id(ctx)),
            r"Current::id$": lambda eng, ctx, f, path, args, dty: opt(idptr(MC.load(eng, ctx, args[0]).data) if MC.load(eng, ctx, args[0]).data is not None else None),
            r"Current::is_none$": lambda eng, ctx, f, path, args, dty: z3.BoolVal(MC.load(eng, ctx, args[0]).data is None),
            r"SpanRef::parent$": lambda eng, ctx, f, path, args, dty: (lambda p_: opt(Native("span", p_) if p_ is not None else None))(dict(ctx.statics["w_parents"]).get(MC.load(eng, ctx, args[0]).data)),
            r"SpanRef::scope$": m_scope,
            r"SpanRef::id$": lambda eng, ctx, f, path, args, dty: Native("id", MC.load(eng, ctx, args[0]).data),
            r"SpanRef::extensions(_mut)?$": lambda eng, ctx, f, path, args, dty: Native("ext", MC.load(eng, ctx, args[0]).data),
            r"Extensions(Mut)?::get(_mut)?$": m_get_labels, r"ExtensionsMut::insert$": m_insert_labels,
            r"Attributes::parent$": lambda eng, ctx, f, path, args, dty: (lambda a: opt(idptr(a[1][1]) if isinstance(a[1], tuple) else None))(MC.load(eng, ctx, args[0]).data),
            r"Attributes::is_root$": lambda eng, ctx, f, path, args, dty: z3.BoolVal(MC.load(eng, ctx, args[0]).data[1] == "root"),
            r"Attributes::is_contextual$": lambda eng, ctx, f, path, args, dty: z3.BoolVal(MC.load(eng, ctx, args[0]).data[1] == "ctx"),
            r"Attributes::values$": lambda eng, ctx, f, path, args, dty: Native("values", MC.load(eng, ctx, args[0]).data[0]),
            r"^Record::new$": lambda eng, ctx, f, path, args, dty: Native("record", MC.load(eng, ctx, args[0]).data),
            r"(Record|ValueSet)::is_empty$": lambda eng, ctx, f, path, args, dty: z3.BoolVal(len(MC.load(eng, ctx, args[0]).data) == 0),
            r"(Record|ValueSet)::len$": lambda eng, ctx, f, path, args, dty: bv(len(MC.load(eng, ctx, args[0]).data)),
            r"^Labels::from_record$": lambda eng, ctx, f, path, args, dty: fields_map(ctx, MC.load(eng, ctx, args[0]).data),
            r"(^|::)get_default$": m_get_default, r"Dispatch::downcast_ref$": m_downcast,
            r"as Recorder>::register_(counter|gauge|histogram)$": m_register,
            r"^<(IndexMap|HashMap) as Clone>::clone$": lambda eng, ctx, f, path, args, dty: MC.deep_copy(ctx, MC.load(eng, ctx, args[0])),
        })
        m2 = dict(m)
        m2.update(models.BASE)
        for k in [k for k in m2 if k in m]:
            m2[k] = m[k]
        eng = sym.Engine(P, models=m2, loop_bound=8, max_paths=20000)
        eng.merging = False
        ctx0 = sym.Ctx(eng, 1)
        ctx0.statics = {"w_spans": (), "w_parents": (), "w_cur": None, "w_thread": 1, "w_emit": None, "dispatch": Opaque("dispatch"), "registry": Opaque("registry"),
                        "layer": Agg({0: Enum(0, {}, "Option")}), "tc": Agg({0: Opaque("inner"), 1: Opaque("filter")}),
                        "metadata": Opaque("metadata")}
        for nl_ in sorted({op[1] for op in ops if op[0] == "emit"}):
            ctx0.statics[f"key{nl_}"] = Native("key", (Native("aname", z3.Int("metric")), MS.lvec(tuple(Native("label", (Native("aname", mk[i]), Native("aval", mv[i]))) for i in range(nl_)))))
        for s in sids:
            ctx0.statics[f"labels_{s}"] = None
            ctx0.statics[f"id_{s}"] = Native("id", s)
        fld.clear()
        for i, op in enumerate(ops):
            if (op[0] == "new" and op[2]) or op[0] == "record":
                mkfield(i)

        def script():
            yield ("call", on_layer, [Ptr(("static", "layer")), Ptr(("static", "registry"))])
            spans, pars = [], []
            for i, op in enumerate(ops):
                yield ("setstatic", "w_cur", curs[i])
                yield ("setstatic", "w_thread", thr[i])
                if op[0] == "new":
                    spans.append(op[1])
                    pars.append((op[1], parents[op[1]]))
                    yield ("setstatic", "w_spans", tuple(spans))
                    yield ("setstatic", "w_parents", tuple(pars))
                    yield ("setstatic", f"attrs_{i}", Native("attrs", ((fld[i],) if op[2] else (), op[3])))
                    yield ("call", new_b, [Ptr(("static", "layer")), Ptr(("static", f"attrs_{i}")), Ptr(("static", f"id_{op[1]}")), Opaque("cx")])
                elif op[0] == "record":
                    yield ("setstatic", f"rec_{i}", Native("record", (fld[i],)))
                    yield ("call", rec_b, [Ptr(("static", "layer")), Ptr(("static", f"id_{op[1]}")), Ptr(("static", f"rec_{i}")), Opaque("cx")])
                elif op[0] == "emit":
                    yield ("setstatic", "w_emit", i)
                    yield ("call", reg_b[kind], [Ptr(("static", "tc")), Ptr(("static", f"key{op[1]}")), Ptr(("static", "metadata"))])
            return UNIT
        leaves = eng.run_script(1, tname, script, ctx0=ctx0)
        e3.absorb(eng)
        done = [l for l in leaves if l.status == "done"]
        other = z3.Or(*[l.taken() for l in leaves if l.status != "done"] or [z3.BoolVal(False)])
        # ---- the rule, computed on the tree: a span's labels are a priority list (first match wins)
        lab, emits = {}, {}     # emits: op index -> expected entries (name, value, guard or None), first match wins
        for i, op in enumerate(ops):
            if op[0] == "new":
                own = [fld[i]] if op[2] else []
                lab[op[1]] = own + list(lab.get(parents[op[1]], []) if parents[op[1]] is not None else [])
            elif op[0] == "record":
                lab[op[1]] = [fld[i]] + lab[op[1]]
            elif op[0] == "emit":
                span_entries = list(lab.get(curs[i], [])) if curs[i] is not None else []
                emits[i] = [(mk[k_], mv[k_], None) for k_ in range(op[1])] + [(k_, v_, include(k_)) for k_, v_ in span_entries]

        def exp_has(entries, n):
            return z3.Or(*[z3.And(k == n, g) if g is not None else k == n for k, v, g in entries] or [z3.BoolVal(False)])

        def exp_val(entries, n):
            r = z3.IntVal(-1)
            for k, v, g in reversed(entries):
                r = z3.If(z3.And(k == n, g) if g is not None else k == n, v, r)
            return r
        bad = {"rule": [], "dup": [], "once": []}
        for l in done:
            obs = [(ev.guard, pl) for (lb, ev, pl) in l.ctx.obs if lb == "inner_register"]
            # paths through a call that end in the same state are merged: an observation counts where its guard holds
            for ei in emits:
                bad["once"].append(z3.And(l.taken(), z3.Sum(*[z3.If(g, 1, 0) for g, pl in obs if pl["emit"] == ei], z3.IntVal(0)) != 1))
            for g, pl in obs:
                entries = emits.get(pl["emit"])
                if entries is None:
                    bad["once"].append(z3.And(l.taken(), g))
                    continue
                k = pl["key"]
                labs = k.data[1].data
                names = [x.data[0].data for x in labs]
                vals = [x.data[1].data for x in labs]
                res_has = lambda n: z3.Or(*[names[j] == n for j in range(len(labs))] or [z3.BoolVal(False)])
                wrong = [z3.Or(z3.Not(exp_has(entries, names[j])), vals[j] != exp_val(entries, names[j])) for j in range(len(labs))]
                missing = [z3.And(gg if gg is not None else z3.BoolVal(True), z3.Not(res_has(kk))) for kk, v, gg in entries]
                bad["rule"].append(z3.And(l.taken(), g, z3.Or(*(wrong + missing) or [z3.BoolVal(False)])))
                bad["dup"].append(z3.And(l.taken(), g, z3.Or(*[names[a] == names[b] for a in range(len(labs)) for b in range(a + 1, len(labs))] or [z3.BoolVal(False)])))
        cname = f"c17_tree_{tname}"
        bounds = (f"span tree `{tname}`: {' ; '.join(' '.join(str(x) for x in op) for op in ops)} (register_{kind}); MetricsLayer::on_layer/on_new_span/on_record and "
                  f"TracingContext::register_{kind} -> enhance_key -> with_labels executed over a modelled span registry; field/label names and values and the filter's verdict per name symbolic "
                  f"(names may coincide across levels and with the metric's own); {len(done)} paths")
        tc = tree_confirm(tname, ops, kind, dict(fld), mk, mv, include)
        specs = [dict(name=f"{cname}:witness", desc="returns", bounds=bounds, cons=base + [z3.Or(*[l.taken() for l in done] or [z3.BoolVal(False)])], expect_unsat=False),
                 dict(name=f"{cname}:returns", desc="panics or exceeds a loop bound", bounds=bounds, cons=base + [other], expect_unsat=True),
                 dict(name=f"{cname}:registers_once", desc="the inner recorder is not called exactly once", bounds=bounds, cons=base + [z3.Or(*bad["once"] or [z3.BoolVal(False)])], expect_unsat=True),
                 dict(name=f"{cname}:span_tree_labels_follow_the_rule", desc="the key that reaches the inner recorder is not: the metric's own labels, plus the admitted fields of the current span and those its "
                      "ancestors had when each descendant was created (metric > inner > outer; a later record() replaces that span's value only)", bounds=bounds,
                      cons=base + [z3.Or(*bad["rule"] or [z3.BoolVal(False)])], expect_unsat=True),
                 dict(name=f"{cname}:no_duplicate_names", desc="the key that reaches the inner recorder contains a label name twice", bounds=bounds, cons=base + [z3.Or(*bad["dup"] or [z3.BoolVal(False)])], expect_unsat=True)]
        for sp in specs[2:]:
            sp["on_model"] = tc

        def validate(ob, model, tc=tc):
            # translator validation: the witness's inputs through the real code; the native oracle must agree that no rule is violated
            st0, det0 = ob.status, ob.detail
            tc(ob, model)
            out = (ob.sample or {}).get("native_replay", {}).get("output", "")
            agree = "natively_violated=[]" in out
            ob.status, ob.reproduced = (st0 if agree else "error"), None
            ob.detail = det0 + (" | the witness's inputs replayed natively: the native oracle agrees (no rule violated)" if agree else
                                " | the witness's inputs replayed natively: the native oracle DISAGREES with the encoding: " + out[-300:])
        specs[0]["on_witness"] = validate
        check.discharge_many(e3.res, specs, 120)

"""C10 DogStatsD aggregation conserves counts across flushes under any interleaving."""
import z3
from common import *
import kani, _kprop, _e3
from mirsmt import sym, conc, models, check
from mirsmt.sym import Ptr, bv, Native, Enum, Agg, UNIT, Fork, Opaque

FUNCS_E1 = ["metrics_exporter_dogstatsd::storage::AtomicCounter::{increment,absolute,flush}", "metrics_exporter_dogstatsd::storage::AtomicGauge::{set,increment,decrement,flush}"]
HARNESSES = [
    kani.H("c10_counter_increments", "histories of <=4 increment/flush steps + 2 final flushes: each delta = added since previous flush, update counts, deltas sum to increments, idle flush = (0,0)", "4 symbolic steps, arbitrary u64", 300, functions=FUNCS_E1),
    kani.H("c10_counter_absolute", "absolute-only histories (non-decreasing values): delta = growth since previous flush, deltas sum to last - first", "4 symbolic steps", 300, functions=FUNCS_E1),
    kani.H("c10_gauge", "gauge set/inc/dec/flush: flush sends the most recent value, update counts", "2 symbolic steps, arbitrary f64 bit patterns", 600, functions=FUNCS_E1),
]
ASSUME = ["hook: metrics_exporter_dogstatsd::verif forwards to the crate-private AtomicCounter/AtomicGauge",
          "E3: sequential consistency; fetch_update as one atomic RMW; f64 +/- as uninterpreted functions",
          "E3 bounds: one updating thread (<=2 updates) and one flushing thread (<=2 flushes) plus a final quiescent flush",
          "socket I/O of the forwarder, telemetry counters and histogram sampling (C16) are outside this check"]


def storage_scenario(e3, kind, name, known):
    P = _e3.program(["metrics-exporter-dogstatsd"])
    eng = sym.Engine(P, models=dict(models.BASE))
    inc_b = P.find("AtomicCounter", "increment", trait="CounterFn")
    abs_b = P.find("AtomicCounter", "absolute", trait="CounterFn")
    cflush_b = P.find("AtomicCounter", "flush")
    gset_b = P.find("AtomicGauge", "set", trait="GaugeFn")
    ginc_b = P.find("AtomicGauge", "increment", trait="GaugeFn")
    gflush_b = P.find("AtomicGauge", "flush")
    c0 = sym.Ctx(eng, 0)
    eng.thread_names[0] = "setup"
    if kind.startswith("gauge"):
        cell = c0.alloc("AtomicGauge", {(0,): (64, bv(0)), (1,): (64, bv(0))})
    else:
        cell = c0.alloc("AtomicCounter", {(0,): ("bool", z3.BoolVal(False)), (1,): (64, bv(0)), (2,): (64, bv(0)), (3,): (64, bv(0))})
    eng.leaves[0] = [sym.Leaf(c0, "done")]
    cp = Ptr(("obj", cell))
    a, b = z3.BitVec("a", 64), z3.BitVec("b", 64)
    inputs = {"a": a, "b": b}
    extra_assume = []

    def updater():
        if kind == "inc_flush":
            yield ("call", inc_b, [cp, a])
        elif kind == "inc2_flush2":
            yield ("call", inc_b, [cp, a])
            yield ("call", inc_b, [cp, b])
        elif kind == "abs2_flush":
            yield ("call", abs_b, [cp, a])
            yield ("call", abs_b, [cp, b])
        elif kind == "gauge_set_flush":
            yield ("call", gset_b, [cp, a])
        elif kind == "gauge_inc_flush":
            yield ("call", gset_b, [cp, a])
            yield ("call", ginc_b, [cp, b])
        return None
    nfl = 2 if kind == "inc2_flush2" else 1
    fb = gflush_b if kind.startswith("gauge") else cflush_b

    def flusher():
        out = []
        for _ in range(nfl):
            r = yield ("call", fb, [cp])
            out.append((r.f[0], r.f[1]))
        return out

    def final():
        r = yield ("call", fb, [cp])
        return [(r.f[0], r.f[1])]
    eng.run_script(1, "updater:" + kind, updater)
    eng.run_script(2, "flusher", flusher)
    eng.run_script(3, "final_flush", final)
    sc = conc.Scenario(eng, name)
    for t in (1, 2, 3):
        sc.thread_order(0, t)
    sc.thread_order(1, 3)
    sc.thread_order(2, 3)
    sc.build()

    def res(t, k, j):
        return sc.leaf_ite(t, lambda l: l.ret[k][j], bv(0))
    deltas = [res(2, k, 0) for k in range(nfl)] + [res(3, 0, 0)]
    ups = [res(2, k, 1) for k in range(nfl)] + [res(3, 0, 1)]
    props = []
    kn = {}
    if kind in ("inc_flush", "inc2_flush2"):
        total = a if kind == "inc_flush" else a + b
        nup = 1 if kind == "inc_flush" else 2
        s = deltas[0]
        for d in deltas[1:]:
            s = s + d
        su = ups[0]
        for u in ups[1:]:
            su = su + u
        props.append(("deltas_sum_to_increments", "the deltas of all flushes do not add up to the increments", s != total, None))
        props.append(("update_counts_sum_to_updates", "the update counts of all flushes do not add up to the number of updates", su != bv(nup), None))
        k6 = z3.Or(*[z3.And(d != 0, u == 0) for d, u in zip(deltas, ups)])
        props.append(("K6_nonzero_delta_reported_with_zero_updates", "known finding K6: the delta and the update count of one increment are reported by different flushes (increment bumps `current` and `updates` in two steps, flush reads them in two steps); State::flush treats (delta != 0, updates == 0) on an idle counter as 'no activity' and drops the delta", k6, None))
        kn["K6_nonzero_delta_reported_with_zero_updates"] = "C10:K6-delta-without-update-count"
    elif kind == "abs2_flush":
        extra_assume.append(z3.ULE(a, b))
        grow = b - a
        s = deltas[0] + deltas[1]
        props.append(("absolute_deltas_sum_to_last_minus_first", "for an absolute-only counter the deltas do not add up to last - first", z3.And(z3.ULE(a, b), s != grow), None))
        big = z3.Or(*[z3.UGT(d, grow) for d in deltas])
        shape = []
        for ls in [e for e in eng.events if e.tid == 1 and e.label == "store" and e.path == (1,)]:
            for cs in [e for e in eng.events if e.tid == 1 and e.label == "store" and e.path == (2,) and sc.may_precede(ls, e)]:
                for ld in [e for e in eng.events if e.tid in (2, 3) and e.label == "load" and e.path == (2,)]:
                    for sw in [e for e in eng.events if e.tid == ld.tid and e.label == "swap" and e.path == (1,) and sc.may_precede(ld, e)]:
                        # the flush read `current` before the absolute update stored it, but swapped `last` after it was re-based
                        shape.append(z3.And(ls.guard, cs.guard, ld.guard, sw.guard, sc.clock[ld.id] < sc.clock[cs.id], sc.clock[ls.id] < sc.clock[sw.id]))
        k7shape = z3.Or(*shape) if shape else z3.BoolVal(False)
        props.append(("no_delta_exceeds_what_was_added", "a delta exceeds last - first by another mechanism than the known one", z3.And(z3.ULE(a, b), big, z3.Not(k7shape)), None))
        big = z3.And(big, k7shape)
        # shape of K7: the flush reads `current` after the first absolute stored `last` but before it stored `current`
        props.append(("K7_first_absolute_racing_flush_gives_wrapped_delta", "known finding K7: a single delta exceeds everything that was added (a flush reads `current` before the first absolute update stores it but swaps `last` after that update re-based it)", z3.And(z3.ULE(a, b), big), None))
        kn["K7_first_absolute_racing_flush_gives_wrapped_delta"] = "C10:K7-first-absolute-races-flush"
    elif kind == "gauge_set_flush":
        props.append(("flush_sends_a_value_that_was_set", "a gauge flush sends a value that is neither the initial value nor the value set", z3.And(deltas[0] != 0, deltas[0] != a), None))
        props.append(("final_flush_sends_most_recent_value", "the quiescent flush does not send the last value set", deltas[1] != a, None))
    elif kind == "gauge_inc_flush":
        fadd = z3.Function("fadd64", z3.BitVecSort(64), z3.BitVecSort(64), z3.BitVecSort(64))
        props.append(("final_flush_sends_most_recent_value", "the quiescent flush does not send set(a)+b", deltas[1] != fadd(a, b), None))
        props.append(("flush_sends_an_intermediate_value", "a racing flush sends a value the gauge never had", z3.And(deltas[0] != 0, deltas[0] != a, deltas[0] != fadd(a, b)), None))
    props.append(("no_panic", "an operation can panic", sc.reach("panic"), None))
    props = [(n, d, v, (x or []) + extra_assume) for n, d, v, x in props]
    roles = {1: "updater " + kind, 2: f"flusher {nfl}", 3: "final"}
    known_here = {k: v for k, v in kn.items() if k.split("_")[0] in known}
    # the final flush thread is not scheduled natively (it runs after the join)
    e3.standard(sc, eng, name, f"updater `{kind}` || {nfl} flush(es), then a quiescent flush; arbitrary u64 arguments; all interleavings; {sc.stats}", props,
                known=known_here, replayer=_e3.native_replayer("C10", "c10", {1: roles[1], 2: roles[2]}, inputs))


def doc_table():
    """what the documentation of AggregationMode promises, read from the doc comments in builder.rs"""
    import re, os
    txt = open(os.path.join(REPO, "metrics-exporter-dogstatsd/src/builder.rs")).read()
    m = re.search(r"pub enum AggregationMode \{(.*?)\n\}", txt, re.S)
    table = {}
    cur = []
    for line in m.group(1).split("\n"):
        t = line.strip()
        if t.startswith("///"):
            cur.append(t[3:].strip())
        elif re.match(r"^\w+,?$", t):
            doc = " ".join(cur).lower()
            table[t.rstrip(",")] = ("not sent with a timestamp" not in doc) and ("sent with a timestamp" in doc)
            cur = []
    return table


def config_tables(e3):
    """decision tables on real code: timestamp per aggregation mode (against the documented table), framing per transport"""
    P = _e3.program(["metrics-exporter-dogstatsd"])
    from mirsmt.sym import Enum, Agg, Opaque
    m = {r"SystemTime::now$": lambda *a: Opaque("now"), r"SystemTime::duration_since$": lambda *a: Enum(0, {0: Agg({0: Opaque("dur")})}, "Result"),
         r"^Result::ok$": lambda eng, ctx, f, path, args, dty: Enum(1, {1: Agg({0: Opaque("dur")})}, "Option"),
         r"^Option::map$": lambda eng, ctx, f, path, args, dty: (Enum(1, {1: Agg({0: z3.BitVec("ts", 64)})}, "Option") if isinstance(args[0], Enum) and args[0].discr == 1 else Enum(0, {}, "Option"))}
    m.update(models.BASE)
    doc = doc_table()
    modes = P.enums["AggregationMode"]
    b = P.find("State", "get_aggregation_timestamp")
    specs = []
    for i, mode in enumerate(modes):
        eng = sym.Engine(P, models=m)
        ctx0 = sym.Ctx(eng, 1)
        ctx0.statics = {"state": Agg({0: Agg({0: Enum(i, {}, "AggregationMode")})})}

        def script():
            r = yield ("call", b, [sym.Ptr(("static", "state"))])
            return r
        leaves = eng.run_script(1, "ts:" + mode, script, ctx0=ctx0)
        e3.absorb(eng)
        some = z3.Or(*[z3.And(l.taken(), eng.discr_is(l.ret.discr, 1)) for l in leaves if l.status == "done"])
        want = doc.get(mode)
        specs.append(dict(name=f"c10_timestamp_{mode}", desc=f"AggregationMode::{mode} is documented to {'send' if want else 'not send'} a timestamp with counters and gauges; the code does the opposite",
                          bounds="decision table: every AggregationMode variant against the documented behaviour (doc comments of builder.rs)",
                          cons=[some != z3.BoolVal(bool(want))], expect_unsat=True))
    # framing: length prefix exactly for the stream transport
    fb = P.find("ForwarderConfiguration", "is_length_prefixed")
    variants = P.enums["RemoteAddr"]
    for i, v in enumerate(variants):
        eng = sym.Engine(P, models=dict(models.BASE))
        ctx0 = sym.Ctx(eng, 1)
        ctx0.statics = {"cfg": Agg({0: Enum(i, {i: Agg({0: Opaque("addr")})}, "RemoteAddr")})}

        def script2():
            r = yield ("call", fb, [sym.Ptr(("static", "cfg"))])
            return r
        leaves = eng.run_script(1, "lp:" + v, script2, ctx0=ctx0)
        e3.absorb(eng)
        yes = z3.Or(*[z3.And(l.taken(), eng.as_bool(l.ret)) for l in leaves if l.status == "done"])
        specs.append(dict(name=f"c10_framing_{v}", desc=f"payloads for RemoteAddr::{v} are {'not ' if v != 'Unix' else ''}length-prefixed (only the unix stream socket needs framing)",
                          bounds="decision table over the RemoteAddr variants", cons=[yes != z3.BoolVal(v == "Unix")], expect_unsat=True))
    from mirsmt import check
    check.discharge_many(e3.res, specs, 60)


TRACING = [r"tracing", r"__CALLSITE", r"LevelFilter", r"DefaultCallsite", r"Interest", r"ValueSet", r"FieldSet", r"Metadata", r"Event::", r"__macro_support", r"fmt::Arguments", r"core::fmt",
           r"^Arguments::", r"^debug$", r"^display$", r"tracing-0\\.1", r"^Span::", r"^TelemetryUpdate::"]


def flush_history(e3, nflush):
    """State::flush called `nflush` times on a registry with one counter; what AtomicCounter::flush returns each time
    ((delta, update count)) is symbolic. The sends must follow the documented idle protocol."""
    from mirsmt import models_str as MS
    from mirsmt.sym import Ptr, Agg, Enum, Native, Fork, UNIT, bv, Opaque
    P = _e3.program(["metrics-exporter-dogstatsd"])
    b = P.find("State", "flush")
    deltas = [z3.BitVec(f"delta{i}", 64) for i in range(nflush)]
    upds = [z3.BitVec(f"updates{i}", 64) for i in range(nflush)]
    key = Native("key", "K")

    def m_handles(kind):
        def h(eng, ctx, f, path, args, dty):
            return MS.lmap([(key, Native("counter_handle", None))]) if kind == "counter" else MS.lmap([])
        return h

    def m_counter_flush(eng, ctx, f, path, args, dty):
        i = ctx.statics.get("flush_no", 0)
        return Agg({0: deltas[i], 1: upds[i]})

    def m_write_counter(eng, ctx, f, path, args, dty):
        ctx.observe("write_counter", flush=ctx.statics.get("flush_no", 0), value=args[2])
        return Agg({0: bv(1), 1: bv(0)})
    # HashSet<Key> with the single key of this scenario: a boolean cell (contains / insert / remove by their std contracts)

    def hs(eng, ctx, p):
        v = eng.load_ptr(ctx, p) if isinstance(p, Ptr) else p
        if not (isinstance(v, Native) and v.kind == "keyset"):
            raise sym.Unsupported(f"HashSet value {v}")
        return v

    def m_contains(eng, ctx, f, path, args, dty):
        return hs(eng, ctx, args[0]).data

    def m_insert(eng, ctx, f, path, args, dty):
        old = hs(eng, ctx, args[0]).data
        eng.store_ptr(ctx, args[0], Native("keyset", z3.BoolVal(True)))
        return z3.Not(old)

    def m_remove(eng, ctx, f, path, args, dty):
        old = hs(eng, ctx, args[0]).data
        eng.store_ptr(ctx, args[0], Native("keyset", z3.BoolVal(False)))
        return old
    m = dict(MS.LIST)
    m.update({r"get_counter_handles$": m_handles("counter"), r"get_gauge_handles$": m_handles("gauge"), r"get_histogram_handles$": m_handles("histogram"),
              r"^AtomicCounter::flush$": m_counter_flush, r"^PayloadWriter::write_counter$": m_write_counter, r"HashMap::len$": lambda *a: bv(0),
              r"^HashSet::contains$": m_contains, r"^HashSet::insert$": m_insert, r"^HashSet::remove$": m_remove,
              r"^<Key as Clone>::clone$": models.m_identity, r"^Key::name$": lambda *a: Opaque("name"), r"^core::str::starts_with$": lambda eng, ctx, f, path, args, dty: eng.fresh("is_internal_metric", "bool"),
              r"Option::as_deref$": lambda *a: Enum(0, {}, "Option"), r"^<Vec as Deref>::deref$|^<Arc as Deref>::deref$": models.m_identity,
              r"^State::get_aggregation_timestamp$": lambda *a: Enum(0, {}, "Option"),
              r"Level as PartialOrd>::le$": lambda *a: z3.BoolVal(False)})
    m.update(models.BASE)
    eng = sym.Engine(P, models=m, opaque=TRACING, loop_bound=3, max_paths=5000)
    eng.merging = False
    ctx0 = sym.Ctx(eng, 1)
    ctx0.statics = {"state": Agg({0: Agg({0: Opaque("agg_mode"), 1: z3.BoolVal(False), 2: z3.BoolVal(False), 3: bv(0), 4: z3.BoolVal(False), 5: Native("strvec", ()), 6: Enum(0, {}, "Option")}), 1: Opaque("registry")}),
                    "fs": Agg({0: Native("keyset", z3.BoolVal(False))}), "flush_no": 0}

    def script():
        for i in range(nflush):
            yield ("setstatic", "flush_no", i)
            yield ("call", b, [Ptr(("static", "state")), Ptr(("static", "fs")), Opaque("writer"), Opaque("telemetry")])
        return None
    leaves = eng.run_script(1, f"State::flush x{nflush}", script, ctx0=ctx0)
    e3.absorb(eng)
    done = [l for l in leaves if l.status == "done"]
    other = z3.Or(*[l.taken() for l in leaves if l.status != "done"] or [z3.BoolVal(False)])
    # what AtomicCounter::flush can return sequentially: no updates => no delta (the converse race is K6, checked at the storage level)
    base = [z3.Implies(upds[i] == bv(0), deltas[i] == bv(0)) for i in range(nflush)]
    # reference protocol: a flush is sent iff the counter was updated since the last flush, or it is the first idle flush after activity
    bad_sent, bad_value = [], []
    for l in done:
        sent = {}
        for lab, e, pl in l.obs:
            if lab == "write_counter":
                sent.setdefault(pl["flush"], []).append((e.guard, pl["value"]))
        idle = z3.BoolVal(False)
        wrong = z3.BoolVal(False)
        wrongv = z3.BoolVal(False)
        for i in range(nflush):
            active = upds[i] != bv(0)
            expect = z3.Or(active, z3.Not(idle))
            n_sent = z3.Sum(*[z3.If(g, 1, 0) for g, v in sent.get(i, [])] + [z3.IntVal(0), z3.IntVal(0)])
            wrong = z3.Or(wrong, n_sent != z3.If(expect, 1, 0))
            wrongv = z3.Or(wrongv, *[z3.And(g, v != deltas[i]) for g, v in sent.get(i, [])])
            idle = z3.Not(active)
        bad_sent.append(z3.And(l.taken(), wrong))
        bad_value.append(z3.And(l.taken(), wrongv))
    cname = f"c10_flush_history_{nflush}"
    bounds = (f"State::flush x{nflush} on one counter; each AtomicCounter::flush result (delta, updates) arbitrary with updates = 0 => delta = 0; gauges and histograms absent; "
              f"the writer accepts every counter; {len(done)} paths")

    def on_model(ob, model):
        ev = lambda t: model.eval(t, model_completion=True)
        hist = [(ev(deltas[i]).as_long(), ev(upds[i]).as_long()) for i in range(nflush)]
        ob.sample = {"flush_results_(delta,updates)": hist}
        import replay_e3
        os.makedirs(os.path.join(REPLAYS, "C10"), exist_ok=True)
        pp = os.path.join(REPLAYS, "C10", f"{cname}.{ob.name.split(':')[1]}.plan")
        inputs = {"n": nflush}
        for i, (d, u) in enumerate(hist):
            inputs[f"active{i}"] = int(u != 0)
        open(pp, "w").write(replay_e3.plan_text("c10_flush_history", ob.name.split(":")[1], {}, [], inputs))
        status, out = replay_e3.run("c10", pp)
        ob.detail += f" | native replay (c10, real State + writer): {status}"
        ob.sample["native_replay"] = {"status": status, "output": out[-500:]}
        ob.replay = pp
        ob.reproduced = status == "reproduced"
        if not ob.reproduced:
            ob.status = "error"
            ob.detail += " — counterexample did NOT reproduce natively: treated as an encoder/model problem, not reported as a violation"
    specs = [dict(name=f"{cname}:witness", desc="the flushes return", bounds=bounds, cons=base + [z3.Or(*[l.taken() for l in done] or [z3.BoolVal(False)])], expect_unsat=False),
             dict(name=f"{cname}:returns", desc="flush panics or exceeds a loop bound", bounds=bounds, cons=base + [other], expect_unsat=True),
             dict(name=f"{cname}:idle_protocol", desc="a counter that was updated is not sent, a counter that stopped changing is not sent as zero exactly once, or it is sent again while idle",
                  bounds=bounds, cons=base + [z3.Or(*bad_sent) if bad_sent else z3.BoolVal(False)], expect_unsat=True, on_model=on_model),
             dict(name=f"{cname}:sends_the_flushed_delta", desc="the value written is not the delta the storage returned", bounds=bounds,
                  cons=base + [z3.Or(*bad_value) if bad_value else z3.BoolVal(False)], expect_unsat=True, on_model=on_model)]
    from mirsmt import check
    check.discharge_many(e3.res, specs, 120)


SCEN = [("inc_flush", "c10_inc_flush", ["K6"]), ("inc2_flush2", "c10_inc2_flush2", ["K6"]), ("abs2_flush", "c10_abs2_flush", ["K7"]),
        ("gauge_set_flush", "c10_gauge_set_flush", []), ("gauge_inc_flush", "c10_gauge_inc_flush", [])]


def histogram_flush_vs_record(e3):
    """AtomicHistogram (sampling off): record(a); then flush(f) while another thread records x; then the recorder finishes; flush; flush.
    Every value must be handed to the closure of exactly one flush. Bucket operations are atomic steps (C05); the concurrent record may
    land before any of them (solver's choice)."""
    from mirsmt import models_bucket_seq as MB, models_str as MS, models_coll as MC
    P = _e3.program(["metrics-exporter-dogstatsd"])
    a, x = z3.BitVec("a", 64), z3.BitVec("x", 64)
    new_b = P.find("AtomicHistogram", "new")
    rec_b = [b for b in P.by_last["record"] if b.impl and b.impl[1] == "AtomicHistogram" and b.impl[0] is None][0]
    flush_b = P.find("AtomicHistogram", "flush")

    def cb(k):
        def h(eng, ctx, f, args):
            rate, vals = args[0], args[1]
            it = vals
            while isinstance(it, Enum):
                pv = [p for p in it.v.values() if p.f]
                if len(pv) != 1:
                    raise sym.Unsupported(f"Values: {vals}")
                it = pv[0].f[0]
            it = MC.load(eng, ctx, it)
            if not (isinstance(it, Native) and it.kind in ("liter", "sliceiter")):
                raise sym.Unsupported(f"values iterator: {it}")
            items = [MC.load(eng, ctx, t) for t in it.data[0][it.data[1]:]]
            ctx.observe("flushed", flush=k, values=tuple(items), sampled=not (isinstance(rate, Enum) and isinstance(rate.discr, int) and rate.discr == 0))
            return UNIT
        return Native("callback", h)
    m = dict(MB.BUCKET_SEQ)
    m.update({r"^Arc::new$|^Box::new$": models.m_identity})
    m.update(models.BASE)
    eng = sym.Engine(P, models=m, loop_bound=4, max_paths=2000)
    eng.merging = False
    ctx0 = sym.Ctx(eng, 1)

    def script():
        hv = yield ("call", new_b, [z3.BoolVal(False), bv(0)])
        yield ("setstatic", "hist", hv)
        hp = Ptr(("static", "hist"))
        yield ("call", rec_b, [hp, a])
        yield ("setstatic", "env_pending", (x,))
        yield ("call", flush_b, [hp, cb(0)])
        # the recorder thread runs to completion: if its push has not landed yet it lands now
        pend = yield ("getstatic", "env_pending")
        if pend:
            yield ("setstatic", "env_pending", ())
            yield ("call", rec_b, [hp, x])
        yield ("call", flush_b, [hp, cb(1)])
        yield ("call", flush_b, [hp, cb(2)])
        return None
    leaves = eng.run_script(1, "record; flush || record; flush; flush", script, ctx0=ctx0)
    e3.absorb(eng)
    done = [l for l in leaves if l.status == "done"]
    other = z3.Or(*[l.taken() for l in leaves if l.status != "done"] or [z3.BoolVal(False)])
    bad = []
    for l in done:
        allv = [(pl["flush"], t) for lab, e, pl in l.obs if lab == "flushed" for t in pl["values"]]
        nx = sum(1 for k, t in allv if z3.is_expr(t) and t.eq(x))
        na = sum(1 for k, t in allv if z3.is_expr(t) and t.eq(a))
        a_first = any(k == 0 and z3.is_expr(t) and t.eq(a) for k, t in allv)
        last_empty = not any(k == 2 for k, t in allv)
        if not (nx == 1 and na == 1 and a_first and last_empty):
            bad.append(l.taken())
    name = "c10_histogram_flush_vs_record"
    bounds = "AtomicHistogram::new(sampling off); record(a); flush(f) with one concurrent record(x) landing before any bucket operation of the flush (or after it); flush(f); flush(f); a, x arbitrary f64"

    def on_model(ob, model):
        import replay_e3
        ob.sample = {"scenario": name, "a_bits": model.eval(a, model_completion=True).as_long()}
        os.makedirs(os.path.join(REPLAYS, "C10"), exist_ok=True)
        pp = os.path.join(REPLAYS, "C10", name + ".plan")
        open(pp, "w").write(replay_e3.plan_text(name, ob.name.split(":")[1], {}, [], {"a": model.eval(a, model_completion=True).as_long()}))
        status, out = replay_e3.run("c10", pp)
        ob.detail += f" | native replay (c10, search for the position of the concurrent record inside flush): {status}"
        ob.sample["native_replay"] = {"status": status, "output": out[-400:]}
        ob.replay = pp
        ob.reproduced = status == "reproduced"
        if not ob.reproduced:
            ob.status = "error"
    specs = [dict(name=f"{name}:witness", desc="the history completes", bounds=bounds, cons=[z3.Or(*[l.taken() for l in done] or [z3.BoolVal(False)])], expect_unsat=False),
             dict(name=f"{name}:returns", desc="record or flush panics", bounds=bounds, cons=[other], expect_unsat=True),
             dict(name=f"{name}:every_value_in_exactly_one_flush", desc="a value recorded with sampling off (before, or on another thread during, a flush) is handed to no flush or to two", bounds=bounds,
                  cons=[z3.Or(*bad) if bad else z3.BoolVal(False)], expect_unsat=True, on_model=on_model)]
    check.discharge_many(e3.res, specs, 120)


def run(tier, seed, t0):
    e3 = _e3.E3("C10")
    for kind, nm, known in SCEN:
        try:
            storage_scenario(e3, kind, nm, known)
        except _e3.ENC_ERRORS as ex:
            e3.error(nm, "MIR->SMT encoding of dogstatsd storage", ex)
    try:
        config_tables(e3)
    except _e3.ENC_ERRORS as ex:
        e3.error("c10_tables", "decision tables of State::get_aggregation_timestamp / is_length_prefixed", ex)
    try:
        histogram_flush_vs_record(e3)
    except _e3.ENC_ERRORS as ex:
        e3.error("c10_histogram_flush_vs_record", "MIR->SMT encoding of AtomicHistogram::{new,record,flush}", ex)
    # what the socket receives is framed by the payload writer (C09's machinery): a second flush cycle on the same writer
    try:
        import c09
        c09.analyse(e3, "c10_framing_second_flush", [("counter", 0, 1, False, False), ("drain",), ("gauge", 1, 1, True, False), ("drain",)], "two flush cycles on one payload writer (framing for the transport in use)")
    except _e3.ENC_ERRORS as ex:
        e3.error("c10_framing_second_flush", "MIR->SMT encoding of PayloadWriter", ex)
    # ... and two metrics in one flush where the first may be too long for the payload limit (rejected) and the second is written after it
    try:
        c09.analyse(e3, "c10_framing_two_metrics_one_flush", [("counter", 1, 1, True, False), ("gauge", 0, 1, False, False), ("drain",)], "two metrics in one flush, either of which may exceed the payload limit (framing for the transport in use)")
    except _e3.ENC_ERRORS as ex:
        e3.error("c10_framing_two_metrics_one_flush", "MIR->SMT encoding of PayloadWriter", ex)
    for n in ([4] if tier == "quick" else [3, 4, 5]):
        try:
            flush_history(e3, n)
        except _e3.ENC_ERRORS as ex:
            e3.error(f"c10_flush_history_{n}", "MIR->SMT encoding of State::flush", ex)
    obs = list(e3.res.obligations)
    obs += kani.run_group("dsd", HARNESSES, tier, hooks=True, stubbing=True)
    finish("C10", tier, seed, obs, t0, ASSUME + ["E3 callee models: " + ", ".join(sorted(e3.models))], sorted(e3.functions) + FUNCS_E1,
           explanation="Kani harnesses over sequential update/flush histories + MIR->SMT partial-order encoding of update || flush schedules")


def replay(path):
    if path.endswith(".vals"):
        return _kprop.replay(path)
    import replay_e3
    status, out = replay_e3.run("c09" if "c10_framing" in path else "c10", path)
    print(status, out)
    return 1 if status == "reproduced" else 0

"""E3 scenarios over a single atomic cell: the real methods run as threads, the final value must equal the
sequential application of the operations in the order of their atomic steps (some linearisation)."""
import itertools
import z3
from common import *
import _e3
from mirsmt import sym, conc, models
from mirsmt.sym import Ptr, bv


_BV = z3.BitVecSort(64)
# the same uninterpreted functions the encoder uses for f64 `+` and `-` (Engine.float_mode == "uf")
fadd = z3.Function("fadd64", _BV, _BV, _BV)
fsub = z3.Function("fsub64", _BV, _BV, _BV)


def same_f64(a, b):
    return a == b


REF = {
    "c_increment": lambda cur, v: cur + v,
    "c_absolute": lambda cur, v: z3.If(z3.UGE(cur, v), cur, v),
    "g_increment": lambda cur, v: fadd(cur, v),
    "g_decrement": lambda cur, v: fsub(cur, v),
    "g_set": lambda cur, v: v,
}


def linearizable_final(sc, eng, ops, init, final, is_float):
    """ops: [(tid, opname, value)] one op per thread. The property: final == fold of the ops in the clock order of
    their (last) write event. Returns the violation condition."""
    last_w = {}
    for e in eng.events:
        if e.kind in ("W", "U") and e.tid in [o[0] for o in ops]:
            last_w.setdefault(e.tid, []).append(e)
    alts = []
    for perm in itertools.permutations(ops):
        cur = init
        for tid, op, v in perm:
            cur = REF[op](cur, v)
        order_ok = []
        for a, b in zip(perm, perm[1:]):
            # every write event of a precedes every write event of b (events not on the taken path have free clocks: guard them)
            for x in last_w.get(a[0], []):
                for y in last_w.get(b[0], []):
                    order_ok.append(z3.Implies(z3.And(x.guard, x.wguard, y.guard, y.wguard), sc.clock[x.id] < sc.clock[y.id]))
        eq = same_f64(final, cur) if is_float else final == cur
        alts.append(z3.And(z3.And(*order_ok) if order_ok else z3.BoolVal(True), eq))
    return z3.Not(z3.Or(*alts))

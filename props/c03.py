"""C03 Key equality, ordering and hashing agree and ignore how a key was built."""
import z3
from common import *
import kani, _kprop, _e3
from mirsmt import sym, conc, models
from mirsmt.sym import Ptr, bv

FUNCS = ["metrics::key::<Key as PartialEq>::eq", "metrics::key::<Key as Ord>::cmp", "metrics::key::key_hasher_impl", "metrics::key::generate_key_hash",
         "metrics::key::Key::{from_parts,from_static_parts,from_static_labels,from_name,with_extra_labels,clone,get_hash}",
         "metrics::label::Label (derived Eq/Ord/Hash)", "metrics::cow::Cow<str>/<[Label]> eq/cmp/hash/clone"]
S1 = "label names/values and key names are one-byte strings with symbolic content in {a,b} (fresh buffers)"
ST = {"functions": FUNCS}
HARNESSES = [
    kani.H("c03_pair_0", "pair of keys, 0 labels: eq<=>cmp==Equal, symmetry, antisymmetry, partial_cmp", S1, 200, **ST),
    kani.H("c03_pair_1", "pair of keys, 1 label each", S1, 200, **ST),
    kani.H("c03_pair_2", "pair of keys, 2 labels each (repeated names, repeated labels)", S1, 400, **ST),
    # beyond reach here (each ran past 2400 s alone, CBMC at 8-10 GB): c03_pair_mixed — pairs with different label counts 0..2, reflexivity
    kani.H("c03_alias_0", "names that are prefixes of one static buffer (same address, lengths 0..2)", "strings '', 'a', 'ab' aliasing", 200, **ST),
    kani.H("c03_alias_1", "1 label, names/values aliasing prefixes of one buffer; == is content equality", "strings '', 'a', 'ab' aliasing", 300, **ST),
    kani.H("c03_triple_1", "triples, 1 label: Eq transitive, cmp transitive (strict and non-strict)", S1, 400, **ST),
    kani.H("c03_hash_1", "a==b => identical std-Hash byte stream and get_hash(); get_hash stable, survives clone", S1 + "; KeyHasher stubbed by a rotate/xor fold", 400, **ST),
    kani.H("c03_extra_labels_hash", "with_extra_labels on an already hashed base key (eager constructors, static key after get_hash): equal to, ordered and hashed like the directly built key", S1, 600, **ST),
    kani.H("c03_same_name_two_labels", "two labels with one name in either order: equal keys hash alike (and unequal ones are not cmp-Equal)", S1, 600, **ST),
    kani.H("c03_hash_2", "same, 2 labels", S1, 900, tier="thorough", **ST),
    kani.H("c03_hash_3", "same, 3 labels (sort arm)", S1, 1800, tier="thorough", **ST),
    kani.H("c03_pair_3", "pair of keys, 3 labels (n<8 sort arm)", S1, 900, tier="thorough", **ST),
    kani.H("c03_pair_4", "pair of keys, 4 labels", S1, 2400, tier="thorough", **ST),
    kani.H("c03_triple_2", "triples, 2 labels", S1, 1800, tier="thorough", **ST),
    kani.H("c03_triple_3", "triples, 3 labels", S1, 2400, tier="thorough", **ST),
    # beyond reach here (each ran past 2400 s alone, CBMC at 8-10 GB): c03_paths_1 — 8 construction paths (static/owned/Arc/tuple/with_extra_labels/clone) give equal keys, equal hashes, same content
    # beyond reach here (each ran past 2400 s alone, CBMC at 8-10 GB): c03_paths_2 — same, 2 labels
    kani.H("c03_perm_2", "pairwise distinct label names: supplied order irrelevant for eq/cmp/hash/get_hash", "2 labels", 600, tier="thorough", **ST),
    kani.H("c03_perm_3", "same, 3 labels", "3 labels, two symbolic swaps", 1800, tier="thorough", **ST),
    # beyond reach here (each ran past 2400 s alone, CBMC at 8-10 GB): c03_big8 — n>=8 arm: 8 labels, reversed order, one symbolic value change on each side
]
ASSUME = ["strings are 1-byte with symbolic content in {a,b} (comparison is memcmp: content-agnostic beyond order and length), plus an aliasing harness with lengths 0..2; longer and non-ASCII strings are outside the bound",
          "metrics::KeyHasher (ahash) is replaced by a recording / folding hasher under Kani: equal byte streams are what is checked, not the quality of ahash",
          "E3 get_hash race: generate_key_hash is an uninterpreted constant of the key; sequential consistency plus release/acquire race relation",
          ">= 9 labels, strings > 2 bytes outside the claim"]

FUNCS_E3 = ["metrics::key::Key::get_hash", "metrics::key::<impl Clone for Key>::clone"]


def gethash_scenario(e3, shape, name):
    P = _e3.program(["metrics"])
    H = z3.BitVec("key_hash", 64)
    m = dict(models.BASE)
    m[r"generate_key_hash$"] = lambda eng, ctx, f, path, args, dty: H     # a deterministic function of the key's content
    eng = sym.Engine(P, models=m, opaque=[r"KeyName as Clone>::clone$", r"Cow as Clone>::clone$"])
    get_b = P.find("Key", "get_hash")
    clone_b = P.find("Key", "clone", trait="Clone")
    c0 = sym.Ctx(eng, 0)
    eng.thread_names[0] = "setup"
    key = c0.alloc("Key", {(2,): ("bool", z3.BoolVal(False)), (3,): (64, bv(0))})
    eng.leaves[0] = [sym.Leaf(c0, "done")]
    kp = Ptr(("obj", key))
    tids = []
    for i, kind in enumerate(shape, start=1):
        def script(kind=kind):
            if kind == "get":
                r = yield ("call", get_b, [kp])
                return [r]
            if kind == "get_get":
                r1 = yield ("call", get_b, [kp])
                r2 = yield ("call", get_b, [kp])
                return [r1, r2]
            c = yield ("call", clone_b, [kp])
            oid = yield ("alloc", "Key", {(2,): ("bool", eng.as_bool(c.f[2])), (3,): (64, c.f[3])})
            r = yield ("call", get_b, [Ptr(("obj", oid))])
            r0 = yield ("call", get_b, [kp])
            return [r, r0]
        eng.run_script(i, f"t{i}:{kind}", script)
        tids.append(i)
    sc = conc.Scenario(eng, name)
    for t in tids:
        sc.thread_order(0, t)
    sc.build()
    wrong = []
    for t in tids:
        n = max(len(l.ret) for l in eng.leaves[t] if l.status == "done")
        for k in range(n):
            wrong.append(sc.leaf_ite(t, lambda l, k=k: l.ret[k] != H, z3.BoolVal(False)))
    race, extra = sc.race_condition()
    props = [("get_hash_is_the_key_hash_on_every_thread", "some get_hash() call (also on a clone taken meanwhile) returns something else than the hash of the key", z3.Or(*wrong), None),
             ("no_data_race", "conflicting accesses unordered by happens-before", race, extra)]
    roles = {t: shape[t - 1] for t in tids}
    e3.standard(sc, eng, name, f"threads {shape} on one lazily hashed key, every interleaving; {sc.stats}", props,
                replayer=_e3.native_replayer("C03", "c03", roles, {"key_hash": H}))


def run(tier, seed, t0):
    e3 = _e3.E3("C03")
    scen = [(["get", "get"], "c03_race_get_get"), (["get", "clone_get"], "c03_race_get_clone"), (["get", "get_get"], "c03_race_get_getget")]
    if tier == "thorough":
        scen += [(["get", "get", "get"], "c03_race_3get"), (["get", "get", "clone_get"], "c03_race_get_get_clone")]
    for shape, nm in scen:
        try:
            gethash_scenario(e3, shape, nm)
        except _e3.ENC_ERRORS as ex:
            e3.error(nm, "MIR->SMT encoding of Key::get_hash / Key::clone", ex)
    obs = list(e3.res.obligations)
    # thorough: CBMC needs 3-10 GB per harness: at most 6 at a time
    obs += kani.run_group("core", HARNESSES, tier, hooks=True, stubbing=True, jobs=(6 if tier == "thorough" else None))
    finish("C03", tier, seed, obs, t0, ASSUME + ["E3 callee models: " + ", ".join(sorted(e3.models))], FUNCS + sorted(e3.functions),
           explanation="Kani harnesses over symbolic keys (Eq/Ord/Hash coherence) + MIR->SMT partial-order encoding of the get_hash publication race")


def replay(path):
    if path.endswith(".vals"):
        return _kprop.replay(path)
    import replay_e3
    status, out = replay_e3.run("c03", path)
    print(status, out)
    return 1 if status == "reproduced" else 0

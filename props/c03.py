"""C03 Key equality, ordering and hashing agree and ignore how a key was built."""
from common import *
import kani

FUNCS = ["metrics::key::<Key as PartialEq>::eq", "metrics::key::<Key as Ord>::cmp", "metrics::key::key_hasher_impl",
         "metrics::key::Key::get_hash", "metrics::label::Label (derived Eq/Ord/Hash)", "metrics::cow::Cow<str> eq/cmp/hash"]

HARNESSES = [
    kani.H("c03_pair_0", "pair of keys, 0 labels: eq<=>cmp==Equal, symmetry, antisymmetry", "names in {'',a,b}", 120, functions=FUNCS),
    kani.H("c03_pair_1", "pair of keys, 1 label each", "names/label parts in {'',a,b}", 120, functions=FUNCS),
    kani.H("c03_pair_2", "pair of keys, 2 labels each (incl. repeated label names)", "names/label parts in {'',a,b}", 240, functions=FUNCS),
    kani.H("c03_pair_3", "pair of keys, 3 labels each (n<8 sort arm)", "names/label parts in {'',a,b}", 400, functions=FUNCS),
]

ASSUME = ["strings range over a 3-element table {'', 'a', 'b'}: comparison is memcmp and content-agnostic beyond equal/less/greater and length",
          "Kani 0.68 / CBMC 6.11 model of the compiled crate (dev profile semantics, overflow checks on)"]


def run(tier, seed, t0):
    obs = kani.run_group("core", HARNESSES, tier)
    finish("C03", tier, seed, obs, t0, ASSUME, FUNCS, explanation="Kani harnesses over symbolic keys")


def replay(path):
    import re
    m = re.search(r"harness=(\S+) group=(\S+)", open(path).read())
    rr = kani.run_replay_file(m.group(2), m.group(1), path, False)
    print(rr)
    return 1 if any(v.startswith("reproduced") for v in rr.values()) else 0

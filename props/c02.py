"""C02 The global recorder is installed at most once and is seen whole by everyone."""
import z3
from common import *
import kani, _kprop, _e3
from mirsmt import sym, conc, models
from mirsmt.sym import Ptr, Enum, Agg, bv

FUNCS_E1 = ["metrics::set_global_recorder", "metrics::with_recorder", "metrics::recorder::cell::RecorderOnceCell::{set,try_load}"]
HARNESSES = [
    kani.H("c02_seq_sized", "sequences of 3 set_global_recorder calls (recorders with state) interleaved with emissions: exactly the first succeeds, losers are handed back undropped, emissions go to the winner", "3 installs, 4 emissions, one thread", 300, functions=FUNCS_E1),
    kani.H("c02_seq_zst", "same with zero-sized recorder types (Box of a ZST does not allocate)", "3 installs, one thread", 300, functions=FUNCS_E1),
]
ASSUME = ["E3: sequential consistency for atomics plus a release/acquire happens-before relation for the non-atomic cell (weaker effects of the C11 model are outside the claim)",
          "E3: Box::new/Box::leak modelled as allocation of a fresh object holding the recorder; UnsafeCell::get, ptr::read/write as plain accesses",
          "E3 bounds: <= 3 installers and <= 2 emitting threads, each operation once",
          "E1: Kani, one thread, global state fresh per harness"]


def scenario(e3, n_inst, n_read, name):
    P = _e3.program(["metrics"])
    set_b = P.find("RecorderOnceCell", "set")
    load_b = P.find("RecorderOnceCell", "try_load")
    # drop accounting: dropping a Box<R> (by `drop(box)`, mem::drop or going out of scope) finalises the recorder inside it
    def box_dropped(eng_, ctx, v):
        if isinstance(v, Ptr) and v.root[0] == "obj" and eng_.objs.get(v.root[1]) == "Box":
            val = ctx.mem_read(v.root[1], (), 64, False, "NA", "drop_box")
            ctx.observe("recorder_dropped", value=val, box=v.root[1])

    def m_drop_hook(eng_, ctx, f, v, ty):
        if ty and ty.strip().startswith("Box<"):
            box_dropped(eng_, ctx, v)
        return None

    def m_mem_drop(eng_, ctx, f, path, args, dty):
        box_dropped(eng_, ctx, args[0])
        return sym.UNIT
    m = dict(models.BASE)
    m["__drop__"] = m_drop_hook
    m[r"^(std|core)::mem::drop$"] = m_mem_drop
    eng = sym.Engine(P, models=m)
    eng.drop_impls = True            # Drop impls of /repo types (e.g. a guard inside `set`) run as real MIR
    c0 = sym.Ctx(eng, 0)
    eng.thread_names[0] = "setup"
    cell = c0.alloc("RecorderOnceCell", {(0,): ("ptr", z3.IntVal(0)), (1,): (64, bv(0))})
    eng.leaves[0] = [sym.Leaf(c0, "done")]
    cellp = Ptr(("obj", cell))
    inst = list(range(1, n_inst + 1))
    readers = list(range(n_inst + 1, n_inst + n_read + 1))
    tag = {i: bv(100 + i) for i in inst}
    for i in inst:
        eng.run_thread(i, f"installer{i}", set_b, [cellp, tag[i]])

    def reader_script():
        r = yield ("call", load_b, [cellp])
        d = r.discr if isinstance(r, Enum) else None
        some = z3.BoolVal(d == 1) if isinstance(d, int) else (d != 0)
        is_some = yield ("branch", some)
        if is_some:
            p = r.v[1].f[0].root[1]
            # the emission dereferences the recorder: a plain read of the boxed recorder
            val = yield ("read", p, (), 64, False, "NA", "dispatch")
            return ("some", p, val)
        return ("none", None, None)
    for r in readers:
        eng.run_script(r, f"emitter{r}", reader_script)
    sc = conc.Scenario(eng, name)
    for t in inst + readers:
        sc.thread_order(0, t)
    sc.build()
    # helpers
    def ok(i):
        return sc.leaf_ite(i, lambda l: eng.discr_is(l.ret.discr, 0), z3.BoolVal(False))
    def err_payload_is_own(i):
        return sc.leaf_ite(i, lambda l: (l.ret.v[1].f[0].f[0] == tag[i]) if isinstance(l.ret.discr, int) and l.ret.discr == 1 else z3.BoolVal(True), z3.BoolVal(True))
    box_of = {}
    for e in eng.events:
        if e.label == "init:Box":
            box_of[e.tid] = e.obj
    def some(r):
        return sc.leaf_ite(r, lambda l: z3.BoolVal(l.ret[0] == "some"), z3.BoolVal(False))
    def ptr(r):
        return sc.leaf_ite(r, lambda l: l.ret[1] if l.ret[0] == "some" else z3.IntVal(0), z3.IntVal(0))
    def val(r):
        return sc.leaf_ite(r, lambda l: l.ret[2] if l.ret[0] == "some" else bv(0), bv(0))
    n_ok = z3.Sum(*[z3.If(ok(i), 1, 0) for i in inst])
    props = [
        ("exactly_one_install_succeeds", "not exactly one installer gets Ok", n_ok != 1, None),
        ("loser_gets_its_recorder_back", "an Err does not carry the very recorder that was passed in", z3.Or(*[z3.Not(err_payload_is_own(i)) for i in inst]), None),
        ("emission_goes_to_the_winner_fully_constructed", "an emitter sees a recorder that is not the winner's boxed, initialised recorder",
         z3.Or(*[z3.And(some(r), z3.Not(z3.Or(*[z3.And(ok(i), ptr(r) == box_of.get(i, -1), val(r) == tag[i]) for i in inst]))) for r in readers]) if readers else z3.BoolVal(False), None),
    ]
    if len(readers) >= 2:
        a, b = readers[0], readers[1]
        last_a = sc.leaf_ite(a, lambda l: sc.clock[l.last_events[0].id], z3.IntVal(0))
        first_b = min(e.id for e in eng.events if e.tid == b)
        props.append(("once_seen_always_seen", "an emission that starts after another one was dispatched to the recorder falls back to the no-op recorder or another recorder",
                      z3.And(some(a), last_a < sc.clock[first_b], z3.Or(z3.Not(some(b)), ptr(b) != ptr(a))), None))
    # no recorder is finalised by the library: neither the winner's (it lives for the rest of the process) nor a loser's (handed back)
    drops = []
    for ls in eng.leaves.values():
        for l in ls:
            for lab, e, pl in l.obs:
                if lab == "recorder_dropped":
                    drops.append(e.guard)
    props.append(("no_recorder_dropped_by_the_library", "set() drops a recorder: the rejected one before handing it back (the caller then holds a finalised value), or the installed one",
                  z3.Or(*drops) if drops else z3.BoolVal(False), None))
    race, extra = sc.race_condition()
    props.append(("no_data_race_on_cell_or_recorder", "two conflicting accesses (one non-atomic) unordered by release/acquire happens-before", race, extra))
    bounds = f"{n_inst} concurrent installers, {n_read} concurrent emitters, every interleaving of their atomic and plain accesses; {sc.stats}"
    roles = {i: f"installer{i}" for i in inst}
    roles.update({r: f"emitter{r}" for r in readers})
    e3.standard(sc, eng, name, bounds, props, replayer=_e3.native_replayer("C02", "c02", roles, {f"tag{i}": tag[i] for i in inst}))


def run(tier, seed, t0):
    e3 = _e3.E3("C02")
    scen = [(2, 2, "c02_2inst_2emit")] + ([(3, 1, "c02_3inst_1emit"), (3, 2, "c02_3inst_2emit")] if tier == "thorough" else [(3, 1, "c02_3inst_1emit")])
    for ni, nr, nm in scen:
        try:
            scenario(e3, ni, nr, nm)
        except _e3.ENC_ERRORS as ex:
            e3.error(nm, "MIR->SMT encoding of RecorderOnceCell::{set,try_load}", ex)
    # once installed, the global recorder is what a thread without a live local recorder reaches — also a thread that had local scopes
    # open before and during the installation (C01's scenario program and native replay)
    try:
        import c01
        c01.global_late_scenario(e3)
    except _e3.ENC_ERRORS as ex:
        e3.error("c01_global_installed_late", "MIR->SMT encoding of metrics::recorder scoping", ex)
    obs = list(e3.res.obligations)
    obs += kani.run_group("core", HARNESSES, tier, hooks=True)
    funcs = sorted(e3.functions) + FUNCS_E1
    finish("C02", tier, seed, obs, t0, ASSUME + ["E3 callee models: " + ", ".join(sorted(e3.models))], funcs,
           explanation="MIR->SMT partial-order encoding of the once-cell (z3, cross-checked with cvc5) + Kani harness through the public API",
           extra={"mir_dump_s": _e3.program(["metrics"]).dump_times})


def replay(path):
    if path.endswith(".vals"):
        return _kprop.replay(path)
    import replay_e3
    status, out = replay_e3.run("c01" if "/C01/" in path else "c02", path)
    print(status)
    print(out)
    return 1 if status == "reproduced" else 0

//! Scenario programs for the MIR->SMT engine, written in Rust so that their closures and control flow are real MIR.
//! They are never linked or run: only their MIR (dumped with the nightly compiler) is executed symbolically, together
//! with the MIR of /repo's crates. `nd_*`, `rec` and `mark_*` are modelled by the engine.
#![allow(improper_ctypes, clippy::all)]
use metrics::{Counter, Gauge, Histogram, Key, KeyName, Metadata, Recorder, SharedString, Unit};

extern "Rust" {
    /// a solver-chosen boolean
    fn nd_bool() -> bool;
    /// panics (unwinds)
    fn nd_panic() -> !;
    /// the i-th recorder double (its identity is what the checks observe)
    fn rec(i: usize) -> &'static dyn Recorder;
    /// ghost: the global recorder of the scenarios received a call
    fn mark_global_hit();
    /// ghost: recorder i has just been installed locally on this thread
    fn mark_install(i: usize);
    /// ghost: the borrow that installed recorder i has ended (any later dispatch to it is a violation)
    fn mark_scope_end(i: usize);
}

pub fn emit() {
    metrics::with_recorder(|r| r.describe_counter(KeyName::from_const_str("m"), None, SharedString::const_str("d")));
}

/// nested with_local_recorder closures; the inner scope is optional (solver's choice)
pub fn s_nested() {
    unsafe {
        metrics::with_local_recorder(rec(1), || {
            mark_install(1);
            emit();
            if nd_bool() {
                metrics::with_local_recorder(rec(2), || {
                    mark_install(2);
                    emit();
                    if nd_bool() {
                        metrics::with_local_recorder(rec(3), || {
                            mark_install(3);
                            emit();
                        });
                        mark_scope_end(3);
                        emit();
                    }
                });
                mark_scope_end(2);
            }
            emit();
        });
        mark_scope_end(1);
    }
    emit();
}

/// guards dropped last-in-first-out
pub fn s_guards_lifo() {
    unsafe {
        let g1 = metrics::set_default_local_recorder(rec(1));
        mark_install(1);
        emit();
        if nd_bool() {
            let g2 = metrics::set_default_local_recorder(rec(2));
            mark_install(2);
            emit();
            drop(g2);
            mark_scope_end(2);
        }
        emit();
        drop(g1);
        mark_scope_end(1);
    }
    emit();
}

/// guards dropped in a solver-chosen order (first-in-first-out is the known weakness K1)
pub fn s_guards_any_order() {
    unsafe {
        let g1 = metrics::set_default_local_recorder(rec(1));
        mark_install(1);
        let g2 = metrics::set_default_local_recorder(rec(2));
        mark_install(2);
        emit();
        if nd_bool() {
            drop(g1);
            mark_scope_end(1);
            emit();
            drop(g2);
            mark_scope_end(2);
        } else {
            drop(g2);
            mark_scope_end(2);
            emit();
            drop(g1);
            mark_scope_end(1);
        }
    }
    emit();
}

/// a leaked guard (known weakness K2)
pub fn s_guard_forget() {
    unsafe {
        let g1 = metrics::set_default_local_recorder(rec(1));
        mark_install(1);
        emit();
        std::mem::forget(g1);
        mark_scope_end(1);
    }
    emit();
}

/// a panic unwinding through a with_local_recorder scope; the caller ends the scope (`end_scope2`) and emits again
pub fn s_panic_in_scope() {
    unsafe {
        metrics::with_local_recorder(rec(2), || {
            mark_install(2);
            emit();
            if nd_bool() {
                nd_panic();
            }
            emit();
        });
    }
}
pub fn end_scope2() {
    unsafe { mark_scope_end(2) }
}

pub struct G;
impl Recorder for G {
    fn describe_counter(&self, _: KeyName, _: Option<Unit>, _: SharedString) { unsafe { mark_global_hit() } }
    fn describe_gauge(&self, _: KeyName, _: Option<Unit>, _: SharedString) {}
    fn describe_histogram(&self, _: KeyName, _: Option<Unit>, _: SharedString) {}
    fn register_counter(&self, _: &Key, _: &Metadata<'_>) -> Counter { Counter::noop() }
    fn register_gauge(&self, _: &Key, _: &Metadata<'_>) -> Gauge { Gauge::noop() }
    fn register_histogram(&self, _: &Key, _: &Metadata<'_>) -> Histogram { Histogram::noop() }
}

/// global / no-op fall-through around an installation of the global recorder and a local scope
pub fn s_global() {
    emit(); // nothing installed: no-op recorder
    let _ = metrics::set_global_recorder(G);
    emit(); // global
    unsafe {
        metrics::with_local_recorder(rec(1), || {
            mark_install(1);
            emit();
        });
        mark_scope_end(1);
    }
    emit(); // global again
    if unsafe { nd_bool() } {
        let _ = metrics::set_global_recorder(G); // a second installation fails and changes nothing
    }
    emit();
}

/// local scopes (a closure scope, then a guard) opened while no global recorder exists; the global recorder is installed while the guard
/// is alive; after the guard is gone an emission outside any scope reaches the global recorder
pub fn s_global_late() {
    unsafe {
        metrics::with_local_recorder(rec(1), || {
            mark_install(1);
            emit(); // rec1
        });
        mark_scope_end(1);
        let g = metrics::set_default_local_recorder(rec(2));
        mark_install(2);
        emit(); // rec2
        let _ = metrics::set_global_recorder(G);
        emit(); // rec2: the local recorder wins
        drop(g);
        mark_scope_end(2);
    }
    emit(); // global
}

// ------------------------------------------------------------------------------------------------ macro argument forms
/// What each call site below spells, in call order: (operation, name, labels "k=v,k2=v2", level, target, unit, description).
/// The same table is read by the check (expected delivery) and by the native replay.
pub const FORMS: &[(&str, &str, &str, &str, &str, &str, &str)] = &[
    ("register_counter", "c_lit", "", "INFO", "mirharness", "", ""),
    ("register_counter", "c_lab", "k=v", "INFO", "mirharness", "", ""),
    ("register_counter", "c_tl", "k=v,k2=v2", "DEBUG", "tgt", "", ""),
    ("register_counter", "c_l", "", "ERROR", "mirharness", "", ""),
    ("register_counter", "c_t", "a=b", "INFO", "t3", "", ""),
    ("register_gauge", "g_lit", "", "INFO", "mirharness", "", ""),
    ("register_gauge", "g_l", "k=v", "TRACE", "mirharness", "", ""),
    ("register_gauge", "g_t", "", "INFO", "t4", "", ""),
    ("register_gauge", "g_tl", "", "WARN", "t5", "", ""),
    ("register_histogram", "h_lit", "x=y", "INFO", "mirharness", "", ""),
    ("register_histogram", "h_l", "", "WARN", "mirharness", "", ""),
    ("register_histogram", "h_t", "", "INFO", "t6", "", ""),
    ("register_histogram", "h_tl", "p=q", "DEBUG", "t7", "", ""),
    ("describe_counter", "c_lit", "", "", "", "bytes", "desc1"),
    ("describe_counter", "c_lab", "", "", "", "", "desc1b"),
    ("describe_gauge", "g_lit", "", "", "", "seconds", "desc2"),
    ("describe_gauge", "g_l", "", "", "", "", "desc2b"),
    ("describe_histogram", "h_lit", "", "", "", "count", "desc3"),
    ("describe_histogram", "h_l", "", "", "", "", "desc3b"),
    // m_dynamic: call sites reached twice with different computed names
    ("register_counter", "n1", "k=v", "INFO", "mirharness", "", ""),
    ("register_counter", "n2", "k=v", "INFO", "mirharness", "", ""),
    ("register_gauge", "x1", "", "INFO", "mirharness", "", ""),
    ("register_gauge", "x2", "", "INFO", "mirharness", "", ""),
    ("register_histogram", "y1", "k=v", "ERROR", "mirharness", "", ""),
    ("register_histogram", "y2", "k=v", "ERROR", "mirharness", "", ""),
];

// every call site lives in a function of its own: the statics the macros create (METRIC_KEY, LABELS, METADATA) then have unique names
fn f01() {
    let _ = metrics::counter!("c_lit");
}
fn f02() {
    let _ = metrics::counter!("c_lab", "k" => "v");
}
fn f03() {
    let _ = metrics::counter!(target: "tgt", level: metrics::Level::DEBUG, "c_tl", "k" => "v", "k2" => "v2");
}
fn f04() {
    let _ = metrics::counter!(level: metrics::Level::ERROR, "c_l");
}
fn f05() {
    let _ = metrics::counter!(target: "t3", "c_t", "a" => "b");
}
fn f06() {
    let _ = metrics::gauge!("g_lit");
}
fn f07() {
    let _ = metrics::gauge!(level: metrics::Level::TRACE, "g_l", "k" => "v");
}
fn f08() {
    let _ = metrics::gauge!(target: "t4", "g_t");
}
fn f09() {
    let _ = metrics::gauge!(target: "t5", level: metrics::Level::WARN, "g_tl");
}
fn f10() {
    let _ = metrics::histogram!("h_lit", "x" => "y");
}
fn f11() {
    let _ = metrics::histogram!(level: metrics::Level::WARN, "h_l");
}
fn f12() {
    let _ = metrics::histogram!(target: "t6", "h_t");
}
fn f13() {
    let _ = metrics::histogram!(target: "t7", level: metrics::Level::DEBUG, "h_tl", "p" => "q");
}
fn f14() {
    metrics::describe_counter!("c_lit", metrics::Unit::Bytes, "desc1");
}
fn f15() {
    metrics::describe_counter!("c_lab", "desc1b");
}
fn f16() {
    metrics::describe_gauge!("g_lit", metrics::Unit::Seconds, "desc2");
}
fn f17() {
    metrics::describe_gauge!("g_l", "desc2b");
}
fn f18() {
    metrics::describe_histogram!("h_lit", metrics::Unit::Count, "desc3");
}
fn f19() {
    metrics::describe_histogram!("h_l", "desc3b");
}

pub fn m_forms() {
    unsafe {
        metrics::with_local_recorder(rec(1), || {
            mark_install(1);
            f01();
            f02();
            f03();
            f04();
            f05();
            f06();
            f07();
            f08();
            f09();
            f10();
            f11();
            f12();
            f13();
            f14();
            f15();
            f16();
            f17();
            f18();
            f19();
        });
        mark_scope_end(1);
    }
}

fn dyn_counter(n: String) {
    let _ = metrics::counter!(n, "k" => "v");
}
fn dyn_gauge(n: String) {
    let _ = metrics::gauge!(n);
}
fn dyn_histogram(n: String) {
    let _ = metrics::histogram!(level: metrics::Level::ERROR, n, "k" => "v");
}

pub fn m_dynamic() {
    unsafe {
        metrics::with_local_recorder(rec(1), || {
            mark_install(1);
            dyn_counter(String::from("n1"));
            dyn_counter(String::from("n2"));
            dyn_gauge(String::from("x1"));
            dyn_gauge(String::from("x2"));
            dyn_histogram(String::from("y1"));
            dyn_histogram(String::from("y2"));
        });
        mark_scope_end(1);
    }
}

//! Scenario programs for the MIR->SMT engine, written in Rust so that their closures and control flow are real MIR.
//! They are never linked or run: only their MIR (dumped with the nightly compiler) is executed symbolically, together
//! with the MIR of /repo's crates. `nd_*`, `rec` and `mark_*` are modelled by the engine.
#![allow(improper_ctypes, clippy::all)]
use metrics::{Counter, Gauge, Histogram, Key, KeyName, Metadata, Recorder, SharedString, Unit};

extern "Rust" {
    /// a solver-chosen boolean
    fn nd_bool() -> bool;
    /// panics (unwinds)
    fn nd_panic() -> !;
    /// the i-th recorder double (its identity is what the checks observe)
    fn rec(i: usize) -> &'static dyn Recorder;
    /// ghost: the global recorder of the scenarios received a call
    fn mark_global_hit();
    /// ghost: recorder i has just been installed locally on this thread
    fn mark_install(i: usize);
    /// ghost: the borrow that installed recorder i has ended (any later dispatch to it is a violation)
    fn mark_scope_end(i: usize);
}

pub fn emit() {
    metrics::with_recorder(|r| r.describe_counter(KeyName::from_const_str("m"), None, SharedString::const_str("d")));
}

/// nested with_local_recorder closures; the inner scope is optional (solver's choice)
pub fn s_nested() {
    unsafe {
        metrics::with_local_recorder(rec(1), || {
            mark_install(1);
            emit();
            if nd_bool() {
                metrics::with_local_recorder(rec(2), || {
                    mark_install(2);
                    emit();
                    if nd_bool() {
                        metrics::with_local_recorder(rec(3), || {
                            mark_install(3);
                            emit();
                        });
                        mark_scope_end(3);
                        emit();
                    }
                });
                mark_scope_end(2);
            }
            emit();
        });
        mark_scope_end(1);
    }
    emit();
}

/// guards dropped last-in-first-out
pub fn s_guards_lifo() {
    unsafe {
        let g1 = metrics::set_default_local_recorder(rec(1));
        mark_install(1);
        emit();
        if nd_bool() {
            let g2 = metrics::set_default_local_recorder(rec(2));
            mark_install(2);
            emit();
            drop(g2);
            mark_scope_end(2);
        }
        emit();
        drop(g1);
        mark_scope_end(1);
    }
    emit();
}

/// guards dropped in a solver-chosen order (first-in-first-out is the known weakness K1)
pub fn s_guards_any_order() {
    unsafe {
        let g1 = metrics::set_default_local_recorder(rec(1));
        mark_install(1);
        let g2 = metrics::set_default_local_recorder(rec(2));
        mark_install(2);
        emit();
        if nd_bool() {
            drop(g1);
            mark_scope_end(1);
            emit();
            drop(g2);
            mark_scope_end(2);
        } else {
            drop(g2);
            mark_scope_end(2);
            emit();
            drop(g1);
            mark_scope_end(1);
        }
    }
    emit();
}

/// a leaked guard (known weakness K2)
pub fn s_guard_forget() {
    unsafe {
        let g1 = metrics::set_default_local_recorder(rec(1));
        mark_install(1);
        emit();
        std::mem::forget(g1);
        mark_scope_end(1);
    }
    emit();
}

/// a panic unwinding through a with_local_recorder scope; the caller ends the scope (`end_scope2`) and emits again
pub fn s_panic_in_scope() {
    unsafe {
        metrics::with_local_recorder(rec(2), || {
            mark_install(2);
            emit();
            if nd_bool() {
                nd_panic();
            }
            emit();
        });
    }
}
pub fn end_scope2() {
    unsafe { mark_scope_end(2) }
}

pub struct G;
impl Recorder for G {
    fn describe_counter(&self, _: KeyName, _: Option<Unit>, _: SharedString) { unsafe { mark_global_hit() } }
    fn describe_gauge(&self, _: KeyName, _: Option<Unit>, _: SharedString) {}
    fn describe_histogram(&self, _: KeyName, _: Option<Unit>, _: SharedString) {}
    fn register_counter(&self, _: &Key, _: &Metadata<'_>) -> Counter { Counter::noop() }
    fn register_gauge(&self, _: &Key, _: &Metadata<'_>) -> Gauge { Gauge::noop() }
    fn register_histogram(&self, _: &Key, _: &Metadata<'_>) -> Histogram { Histogram::noop() }
}

/// global / no-op fall-through around an installation of the global recorder and a local scope
pub fn s_global() {
    emit(); // nothing installed: no-op recorder
    let _ = metrics::set_global_recorder(G);
    emit(); // global
    unsafe {
        metrics::with_local_recorder(rec(1), || {
            mark_install(1);
            emit();
        });
        mark_scope_end(1);
    }
    emit(); // global again
    if unsafe { nd_bool() } {
        let _ = metrics::set_global_recorder(G); // a second installation fails and changes nothing
    }
    emit();
}

#!/bin/bash
# Run once after a fresh restore, offline. Builds the vendored directory source; everything else is
# rebuilt by the checks themselves from /repo's working tree (each property in its own .build/work/<ID>).
set -e
cd "$(dirname "$0")"
export CARGO_NET_OFFLINE=true
mkdir -p .build evidence replays
python3-vt - <<'PY'
import sys
sys.path.insert(0, "lib")
import kani
kani.ensure_vendor()
PY
echo setup ok

#!/bin/bash
# Run once after a fresh restore, offline. Builds the vendored directory source; everything else is
# rebuilt by the checks themselves from /repo's working tree.
set -e
cd "$(dirname "$0")"
export CARGO_NET_OFFLINE=true
mkdir -p .build/logs evidence replays
python3 tools/mkvendor.py /repo/Cargo.lock .build/vendor
cat > .build/cargo-config.toml <<'CFG'
[source.crates-io]
replace-with = "vendored"
[source.vendored]
directory = "/verif/.build/vendor"
[net]
offline = true
CFG
echo setup ok

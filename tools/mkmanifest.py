#!/usr/bin/env python3
"""Regenerates /verif/MANIFEST.json from the table below (kept in one place so it is always valid)."""
import json, os, subprocess
V = os.path.dirname(os.path.dirname(os.path.abspath(__file__)))
CHECKS = {
 "C03": dict(engine="kani", technique="bounded model checking of the compiled code (Kani/CBMC, SAT) over symbolic keys; native replay of counterexamples",
    text="Kani harnesses over pairs/triples of keys with 0-3 symbolic labels decide eq<=>cmp==Equal, symmetry, antisymmetry, transitivity and hash-stream equality for all values within the bound",
    note="strings from a 3-element table; >3 labels, ahash quality and weak-memory effects on get_hash outside the claim", ref="§4 C03"),
}
NA = {}
ids = [json.loads(l)["id"] for l in open(os.path.join(V, "properties.jsonl"))]
try:
    hooks = subprocess.run(["git", "-C", "/repo", "log", "--format=%H %s"], capture_output=True, text=True).stdout.splitlines()
    hook_commits = [l.split()[0] for l in hooks if " hook:" in l or l.split(" ", 1)[1].startswith("hook:")]
except Exception:
    hook_commits = []
m = {
 "version": 1,
 "setup_cmd": "./setup.sh",
 "hooks": {
  "guard": "--cfg metrics_verif",
  "enable": "RUSTFLAGS='--cfg metrics_verif' (set by the runner for Kani builds, MIR dumps and native replays that need a hook)",
  "baseline_off_cmd": "cd /repo && cargo test --workspace --no-fail-fast --offline",
  "source_commits": hook_commits,
  "add_only": True,
 },
 "engines": [
  {"name": "kani", "path": "lib/kani.py + kani/*", "serves_properties": sorted(k for k, v in CHECKS.items() if "kani" in v["engine"]),
   "kind_free_text": "Kani 0.68 proof harnesses (CBMC 6.11 + CaDiCaL) over the crates in /repo by path dependency; counterexamples replayed natively"},
  {"name": "mirsmt", "path": "lib/mirsmt/*", "serves_properties": sorted(k for k, v in CHECKS.items() if "mirsmt" in v["engine"]),
   "kind_free_text": "own MIR->SMT-LIB symbolic executor over the nightly MIR dump of /repo, z3 cross-checked with cvc5"},
 ],
 "checks": [],
 "not_applicable": [],
 "notes": "All checks: /verif/check <ID> --tier quick|thorough. Exit 2 = engine could not reach a verdict (never reported as success).",
}
for pid in ids:
    if pid in CHECKS:
        c = CHECKS[pid]
        m["checks"].append({
            "property_id": pid,
            "quick_cmd": f"./check {pid} --tier quick",
            "thorough_cmd": f"./check {pid} --tier thorough",
            "evidence_file": f"/verif/evidence/{pid}.json",
            "replay_cmd_template": f"./check {pid} --replay {{path}}",
            "engine": c["engine"],
            "level_claimed": {"category": "model_checking", "text": c["text"], "design_ref": c["ref"]},
            "level_note": c["note"],
            "technique": c["technique"],
        })
    else:
        m["not_applicable"].append({"property_id": pid, "reason": NA.get(pid, "check not built yet (work in progress; see DESIGN.md §4 for the plan)")})
json.dump(m, open(os.path.join(V, "MANIFEST.json"), "w"), indent=1)
print("checks:", [c["property_id"] for c in m["checks"]])

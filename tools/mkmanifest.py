#!/usr/bin/env python3
"""Regenerates /verif/MANIFEST.json from the table below (kept in one place so it is always valid)."""
import json, os, subprocess
V = os.path.dirname(os.path.dirname(os.path.abspath(__file__)))
CHECKS = {
 "C02": dict(engine="mirsmt+kani", technique="SMT (z3, cross-checked by cvc5) over a partial-order encoding generated from the MIR of RecorderOnceCell::{set,try_load}: interleaving = integer clocks + reads-from, release/acquire race relation; Kani harness for sequential install sequences; counterexample schedules replayed natively with real threads",
    text="every interleaving of <=3 concurrent installers and <=2 emitting threads on the real once-cell code: exactly one install succeeds, losers get their recorder back, emissions see the winner fully constructed, once seen always seen, no data race",
    note="sequential consistency + release/acquire happens-before; Box/UnsafeCell/ptr models; more threads and other weak-memory effects outside the claim", ref="§4 C02"),
 "C03": dict(engine="kani+mirsmt", technique="bounded model checking of the compiled code (Kani/CBMC, SAT) over symbolic keys + SMT partial-order encoding of the get_hash publication race from MIR; native replay of counterexamples",
    text="Kani harnesses over pairs/triples of keys with 0-4 symbolic labels decide eq<=>cmp==Equal, symmetry, antisymmetry, transitivity, hash-stream and get_hash equality, construction-path and label-order independence; E3 decides that racing first get_hash()/clone calls all return the key's hash",
    note="1-byte strings with symbolic content (+ aliasing prefixes); KeyHasher replaced by a recording hasher; >8 labels, ahash quality outside the claim", ref="§4 C03"),
 "C04": dict(engine="kani+mirsmt", technique="Kani/CBMC over handle histories with symbolic u64/f64 values + SMT partial-order encoding (from MIR) of 2-3 concurrent operations on the atomic cell with a linearisation oracle; native schedule replay",
    text="for all argument values: sums mod 2^64, absolute = max, gauge = sequential f64 model, record_many delivers n times, conversions as documented, no panic; for all interleavings of 2-3 concurrent counter/gauge operations the final value is a linearisation",
    note="fetch_update modelled as one atomic RMW; f64 +/- as uninterpreted functions in the schedule queries; >3 threads, portable-atomic outside", ref="§4 C04"),
 "C14": dict(engine="kani", technique="bounded model checking of the compiled code (Kani/CBMC): memory-safety checks + drop/refcount accounting over symbolic lengths, capacities and contents",
    text="for each construction kind (borrowed/owned/shared) and six operation scenarios (clone, into_owned, drop orders): content preserved, no use-after-free/double free (CBMC pointer checks), every element dropped exactly once, Arc count back to one",
    note="operation sequences fixed per harness; lengths <= 2; empty-buffer leaks not observable; Send/Sync type-level", ref="§4 C14"),
 "C16": dict(engine="kani", technique="bounded model checking of the compiled code (Kani/CBMC) with the PRNG draw as a solver unknown (hooked), checking the step contract of Algorithm R",
    text="capacities 0-2, three fill/drain cycles with symbolic push counts: yields only this cycle's values, min(n, capacity) of them, sample rate = yielded/pushed, no panic; the draw range requested is exactly count+1 and the replaced slot is the drawn one (uniformity follows by induction)",
    note="uniformity of rand's random_range and the induction are trusted; pushes concurrent with a drain not yet covered", ref="§4 C16"),
 "C05": dict(engine="mirsmt", technique="SMT (z3 4.8.12, cross-checked by cvc5 / z3 5.1.0) over a partial-order encoding generated from the MIR of AtomicBucket::{push,data_with,clear_with} and Block::{push,len,is_quiesced,data}; counterexample schedules replayed natively (real threads, auto-instrumented scratch copy, block size 2)",
    text="for every interleaving of small sets of pushers / clearers / snapshot readers (block size 2, so hand-over is reachable): no value lost outside the two recorded loss mechanisms, none duplicated, none fabricated or read before written, no data race on slots, no panic; the two known losses (K3, K4) are re-derived by the solver, replayed natively and reported as KNOWN-FINDING",
    note="block size 2; crossbeam-epoch trusted; quiescence waits as awaits; values are tags without destructors; >3 pushes / >2 readers outside the bound", ref="§4 C05"),
 "C10": dict(engine="kani+mirsmt", technique="Kani/CBMC over sequential update/flush histories + SMT partial-order encoding (from MIR) of update || flush schedules on the DogStatsD AtomicCounter/AtomicGauge; native schedule replay",
    text="sequential: each delta = what was added since the previous flush, update counts, conservation, idle flush = (0,0); schedules: deltas of all flushes add up to the increments under every interleaving, absolute-only deltas add up to last-first, gauge flush sends a value the gauge had; the two known races (K6 split delta/update count, K7 wrapped delta on first absolute) are re-derived, replayed natively and reported as KNOWN-FINDING",
    note="State::flush idle logic, timestamps, framing and socket I/O not yet covered; one updater and one flusher thread", ref="§4 C10"),
 "C12": dict(engine="mirsmt+kani", technique="SMT over a sequential encoding generated from the MIR of Recency::should_store_{counter,gauge,histogram} with an abstract map/clock/registry: one step from an arbitrary state (decision table) and a two-kind history; Kani harness for Generational; counterexamples replayed natively with a mock clock",
    text="from every entry state, generation, instant, timeout, mask and delete outcome: delete is attempted exactly when the entry has the same generation and was seen more than the timeout ago and the kind is covered; bookkeeping afterwards as the rule requires; other kinds under the same key untouched; every update bumps the generation",
    note="std HashMap as a finite association (trusted), quanta clock arbitrary; Prometheus-side removal of expired distributions not covered", ref="§4 C12"),
 "C13": dict(engine="mirsmt+kani", technique="bounded model checking of the compiled code (Kani/CBMC) with recording recorder doubles over symbolic names, labels, units and operations (prefix, fanout, Stack); SMT over encodings generated from the MIR of RouterBuilder/Router and FilterLayer/Filter (router, filter)",
    text="prefix layer forwards '<prefix>.<name>' with everything else unchanged; fanout reaches every recorder and every inner handle exactly once with the same value; Stack composes in push order; the router delivers to exactly one recorder, the target of the longest applicable route (later identical pattern wins) or the default; the filter drops exactly when the automaton of the configuration at layer() time matches, with inert handles",
    note="1-byte strings and label counts 0/1 in the Kani part; router and filter layers by MIR->SMT with radix_trie / aho-corasick modelled by their documented meaning (two routes, patterns of 1-2 characters)", ref="§4 C13"),
 "C15": dict(engine="mirsmt+kani", technique="bounded model checking of the compiled code (Kani/CBMC) over symbolic ascending f64 bounds and f64 samples of every class; SMT over an encoding generated from the MIR of DistributionBuilder::{new,get_distribution,get_distribution_type} and the derived Matcher ordering",
    text="bucket i counts exactly the samples <= bound i for record and record_many alike, counts monotone across bounds and over time, count = number of samples, NaN handled identically on both paths; the buckets chosen for a name are those of the matching override with the highest precedence (full, prefix, suffix), then the global buckets, else a summary, and the TYPE string agrees",
    note="<=3 bounds, <=3 samples; two overrides with patterns of 1-2 characters; rolling summary window not covered; DDSketch accuracy not applicable", ref="§4 C15"),
 "C20": dict(engine="mirsmt+kani", technique="SMT partial-order encoding generated from the MIR of WeakRecorder::* and RecoveryHandle::into_inner over a counter model of Arc/Weak; Kani harness for the failed-install path; native schedule replay",
    text="for every interleaving of 1-2 emitting threads with into_inner / handle drop: no call is inside the recorder when it is recovered or finalised, none enters afterwards, recorder state intact during calls, original recorder returned, dropped exactly once, live until recovered, no panic",
    note="std Arc/Weak trusted (modelled as strong counter); recorder methods as enter/use/exit", ref="§4 C20"),
 "C06": dict(engine="mirsmt", technique="SMT partial-order encoding generated from the MIR of Registry::{get_or_create_*,get_*,delete_*} over sharded abstract maps with a lock-word model of RwLock (acquire/release race relation incl. release sequences); native schedule replay on real threads",
    text="for every interleaving of 2-3 racing get-or-create / delete calls and for sequential get/delete/get-or-create histories from an arbitrary well-formed registry: one storage per (kind,key), created at most once, different keys/kinds never share, delete/get report existence, mutations only under the write lock, no data race on shard entries",
    note="hashbrown trusted as a map for keys with coherent Eq/hash (the check verifies syntactically that the shard maps use KeyHasher); 2 shards; whole-map iteration (visit/retain/clear/handles) not covered", ref="§4 C06"),
 "C01": dict(engine="mirsmt", technique="SMT over a sequential encoding generated from the MIR of scenario programs (Rust, /verif/mirharness) and of metrics::recorder (LocalRecorderGuard::{new,drop}, with_local_recorder, with_recorder, set_global_recorder), including unwinding edges; ghost scope list as oracle; counterexamples replayed natively by linking the same scenario source against the real crate",
    text="for every solver-chosen branch of the scenario programs (nested closures to depth 3, guards in LIFO and arbitrary order, leaked guard, panic unwinding through a scope, global/no-op fall-through): every emission is dispatched exactly once to the innermost live local recorder, else the global, else the no-op recorder, never to a recorder whose installing borrow ended; the two known weaknesses (K1 FIFO guard drop, K2 leaked guard) are re-derived, replayed natively and reported as KNOWN-FINDING",
    note="one thread; thread-local isolation is the language guarantee; macro forms (key/metadata as spelled) not covered yet", ref="§4 C01"),
 "C09": dict(engine="mirsmt", technique="SMT (linear integer arithmetic; z3 cross-checked by cvc5) over a sequential encoding generated from the MIR of PayloadWriter::{new,write_*,commit,payloads} and Payloads::{next_payload,drop} with length-abstract byte buffers (segments with symbolic lengths); counterexamples replayed natively with concrete lengths against an independent DogStatsD oracle",
    text="for names, prefixes, tags and formatted values of every length, every max_payload_len < 2^32, framing on/off, and histories of writes and drains (incl. rejected-then-accepted and a second flush cycle): no panic, buffer edits only on payload boundaries, every payload within the limit, one complete message, exact length prefix, written/dropped counts match what was yielded",
    note="dev-profile MIR (every +,- overflow-checked) so integer arithmetic is exact; itoa/ryu output lengths by contract; <=3 calls per history, <=3 histogram values, <=1 label each", ref="§4 C09"),
 "C11": dict(engine="mirsmt", technique="SMT over encodings generated from the MIR of drive_connection (socket results symbolic: any accepted prefix, WouldBlock, Interrupted, other errors; frames as abstract byte ranges of symbolic length) and of run_transport's start-up path; counterexamples replayed over real sockets (stalled client, independent length-delimited decoder)",
    text="one client, <= 2 consecutive drive_connection calls, parked remainder or not, <= 2 queued frames of any length: the bytes the socket accepts are a concatenation of whole frames in queue order, a half-sent frame's remainder stays parked, no queued frame disappears while the client is kept; the transport thread starts for buffer_size None and Some(n), n <= 2^24",
    note="reduced claim: the mio event loop, accept/close/reset sequences, fan-out bookkeeping (client counting, drop-oldest), delivery and ordering across clients are NOT covered (they need a running process)", ref="§4 C11"),
 "C18": dict(engine="mirsmt", technique="SMT decision tables (z3 cross-checked by cvc5) generated from the MIR of HttpListeningExporter::check_tcp_allowed (+closures), the compiler-generated state machine of handle_http_request, and PrometheusBuilder::add_allowed_address; counterexamples replayed against a real scrape endpoint (raw HTTP/1.1 from chosen 127.0.0.0/8 source addresses)",
    text="allowlist None or 0..3 networks, any peer address: served iff no allowlist or the peer lies in some listed network (unknown peer refused); a refused peer gets 403 with the default empty body and PrometheusHandle::render is never called for it; /health returns 'OK', every other path the value of render() for this request; add_allowed_address accepts plain addresses and CIDR subnets and rejects anything else",
    note="reduced claim: hyper/tokio (request parsing, garbage/half-open/reset connections, concurrent scrapers, the bytes on the wire) are NOT covered; IpNet::contains / from_str by their documented contracts", ref="§4 C18"),
 "C08": dict(engine="mirsmt", technique="SMT over a character-level encoding generated from the MIR of sanitize_metric_name/sanitize_label_key/sanitize_label_value/sanitize_description, key_to_parts, write_help_line/write_type_line/write_metric_line and Inner::render; the oracle is a strict exposition-format parser run as a symbolic automaton over the produced characters; counterexamples replayed natively against an independent strict parser",
    text="every string of the stated length (each character any Unicode scalar value) as name, label key, label value and description; every Unit; unit suffix on/off; described or not; counter, gauge, histogram and summary families: names match the grammar, values/help text are escaped, every line is a HELP/TYPE/sample/blank line, one TYPE per family before its samples, sample names are the family name plus an allowed suffix (K5 known)",
    note="bounded string lengths (names <= 3-4, values <= 4-5 characters, 1-character label parts in key_to_parts); one family with one label set per render scenario; Display text of numbers is an opaque token; get_recent_metrics, the description map and hash-map iteration order are modelled (concrete shape, symbolic content)", ref="§4 C08"),
 "C19": dict(engine="mirsmt", technique="SMT over sequential encodings generated from the MIR of DebuggingRecorder::{describe_*,register_*,describe_metric,track_metric} and Snapshotter::snapshot with keyed containers of concrete size and symbolic content; the oracle is a reference model of the snapshot; counterexamples replayed through the public API",
    text="three history shapes (ordering / re-registration / described-only / current values; metadata precedence across two descriptions and three kinds sharing a name; histogram values over three snapshots) with symbolic units, descriptions and values: the snapshot equals the reference",
    note="fixed history shapes of <= 7 calls; abstract key identities; registry, atomic bucket, IndexMap/HashMap/Mutex by their contracts; single thread (the thread-locality clause is C01's)", ref="§4 C19"),
 "C07": dict(engine="mirsmt", technique="SMT over sequential encodings generated from the MIR of Inner::{get_recent_metrics,drain_histograms_to_distributions,run_upkeep} and PrometheusRecorder::add_description_if_missing with keyed containers of concrete size and symbolic content; counterexamples replayed through the public recorder/handle API with render() parsed by an independent strict parser",
    text="record / render-snapshot / run_upkeep histories on one histogram, counter and gauge with symbolic values: every snapshot's distribution holds exactly the samples recorded so far, each sample is folded exactly once, counter and gauge show the storage value; the first description/unit of a name is kept",
    note="reduced claim: the conservation chain up to the Snapshot that render() prints (its text is C08's subject); sequential histories only (record-during-render is C05's subject); registry, recency, bucket, maps and locks by their contracts; label merging is checked in C08 (key_to_parts)", ref="§4 C07"),
 "C17": dict(engine="mirsmt", technique="SMT over sequential encodings generated from the MIR of Labels::{extend,extend_from_labels,extend_from_labels_overwrite}, MetricsLayer::{on_new_span,on_record} and the key-building closures of TracingContext::enhance_key, with keyed maps of concrete size and symbolic names/values; a failing rule must also fail in a native battery through the public API",
    text="maps of <= 2 labels with symbolic (possibly coinciding) names: inner span over outer span, later record() over earlier value, metric label over span field, filter verdict respected, no name twice, nothing dropped, no new key without span labels",
    note="reduced claim: tracing-subscriber's registry is modelled (parent link + one Labels slot); the dispatcher, thread-local current span, other threads' spans and field value formatting are NOT covered", ref="§4 C17"),
}

# ---- extensions built after the table above was first written (text appended, stale notes replaced)
MORE = {
 "C01": dict(text="; macro argument forms: 25 call sites covering every form of counter!/gauge!/histogram!/describe_*! (literal and computed names, literal labels, level:, target:, unit), computed-name sites reached twice: each is delivered exactly once with the name, labels, level, target, unit and description spelled there",
             note="one thread; thread-local isolation is the language guarantee; macro forms: Key/Label constructors abstract (C03/C14), non-literal label expressions (vec! allocation) not covered"),
 "C03": dict(text="; with_extra_labels on an already hashed base key equals / hashes like the directly built key; two labels with one name in either order hash alike"),
 "C05": dict(text="; a snapshot read and is_empty() account for every push that completed before they began (no clear involved); values of one pusher appear in push order within a block",
             note="block size 2; crossbeam-epoch trusted; quiescence waits as awaits; values are tags without destructors; quick tier: 5 shapes (race freedom on two of them), thorough: 10 shapes, <=3 pushes / 2 pushers / 2 clears"),
 "C06": dict(text="; equal keys hash alike on the compiled code (Kani: two labels with one name in either order; with_extra_labels on a hashed key)"),
 "C07": dict(text="; the value printed for a counter / gauge series is the stored value and reads back as the same f64 for every bit pattern (render at character level, number tokens carry value and type; float/int casts in the FP theory); a summary series keeps its full _count across any quiet time and upkeep (recorder-level integration encoding: real builder, Recency, distribution map, RollingSummary) and for samples handed over in any timestamp order; the drain's lock discipline counterexample is replayed by a position search (run_upkeep passes p yield points, then render runs)",
             note="conservation chain up to the Snapshot that render() prints; sequential histories (record-during-render: C05/C19-style interference is not encoded here); registry, bucket, key_to_parts and the DDSketch abstract"),
 "C08": dict(text="; key_to_parts on keyed containers incl. label-less keys with global labels; the value on a counter / gauge sample line is the stored value in a form that reads back exactly",
             note="bounded string lengths (names <= 3-4, values <= 4-5 characters, 1-character label parts in key_to_parts); one family with one label set per render scenario; Display of integers / floats trusted (exact / shortest round-trip)"),
 "C09": dict(text="; every payload is exactly `[prefix.]name(:value)+|type[|@rate][|#global tags,own tags][|T ts]\\n` of one write with that write's own sample rate / timestamp / tags, values in order, also for the same key written twice and across flush cycles; the buffer's capacity is its high-water mark (drain-time buffer replacement)"),
 "C10": dict(text="; State::flush idle protocol histories; histogram (sampling off): every value recorded before or during a flush (interference at bucket-operation boundaries) is handed to exactly one flush; framing over two flush cycles on one writer (C09's encoding)",
             note="one updater and one flusher thread for the counter/gauge schedules; the histogram's bucket operations are atomic steps (C05); socket I/O not covered"),
 "C11": dict(text="; the transport thread's event loop: run_transport executed over scripted poll() results (accept, channel messages, fan-out with drop-oldest, writable clients; socket outcomes and frame lengths symbolic): per client whole frames only, metadata known at connect time (latest unit/description) first, then the metrics received afterwards in order, a reading client gets everything, client_count = connected clients and should_send accordingly after every batch",
             note="<= 2 clients, <= 7 batches; mio / crossbeam-channel / prost by their documented behaviour; the emitting side (Handle::push_metric racing with should_send) and client sockets becoming readable are outside the bound"),
 "C12": dict(text="; usage histories from Recency::new (any mask, timeout, 0..2 updates and any time step before each of 3-5 observations over 1-2 kinds, re-registration after a drop) against the property's reference; recorder level (real builder + Recency + distribution map, with and without global labels): dropped iff idle longer than the timeout, kept with full value otherwise, fresh series after a drop",
             note="std HashMap as keyed container of concrete size; clock = scenario time (integers); registry abstract at recorder level; decision tables from an arbitrary internal state are skipped on a tree with another bookkeeping layout (the histories do not depend on it)"),
 "C13": dict(text="; E3: Fanout[r1,r2] <- PrefixLayer <- PrefixLayer built by the real constructors, describe + register twice + update through the second handle reach each recorder exactly once with both prefixes (names that already begin with a prefix included); router (two and three routes; radix_trie get_ancestor = longest stored key that is a prefix, get_raw_ancestor at nibble level with branch nodes) / filter through their real constructors, filter by pattern containment with ASCII case folding, each setter on its own between two layer() calls"),
 "C14": dict(text="; releases with a layout that does not match the allocation (CBMC's rust_dealloc / free checks) are confirmed natively by a checking global allocator; values sharing a start address but not a length compare unequal"),
 "C15": dict(text="; rolling summary: for 2-3 samples with any non-decreasing timestamps, any bucket duration and 1-3 buckets, the snapshot (sketch = multiset of samples) contains no sample older than the window, every sample well inside it, and the total count is the number of samples; recorder level: _count survives any quiet time and upkeep; for samples in any timestamp order (a drain hands the newest storage block over first) the cumulative count is the number of samples and add() terminates; precedence counterexamples are replayed through PrometheusBuilder::set_buckets_for_metric",
             note="<=3 bounds, <=3 samples (Kani); two overrides with patterns of 1-2 ASCII name characters (what the builder's sanitisation lets through); which samples the quantiles cover is specified for samples in time order only; DDSketch accuracy is outside the claim"),
 "C16": dict(text="; the sample rate does not change while the drain is iterated; a value pushed while a drain is held is yielded by the next drain, once; E3 schedules (1-2 pushers || consume): only this cycle's values, none twice, within capacity none lost outside the two recorded mechanisms K9 / K10",
             note="uniformity of rand's random_range and the induction are trusted; capacity <= 2"),
 "C18": dict(text="; the allowlist as the real pipeline (new_http_listener builds the exporter, then check_tcp_allowed) over 1-3 IPv4 networks of any address / prefix length (nested, overlapping, unsorted, host bits) and any loopback peer; the accept loop (serve_tcp's state machine -> spawned task -> handler response) over 2 accepted / failed connections with failing peer_addr(): one answer per accepted connection following the allowlist, the loop never ends",
             note="the membership test is encoded on IPv4 values; IPv6 enters only in the syntax table (a plain address of either family is stored as exactly that host: /32 or /128); hyper's parsing, connections aborted mid-render and concurrency are NOT covered"),
 "C17": dict(text="; span trees end to end: MetricsLayer::on_layer / on_new_span / on_record and TracingContext::register_* -> enhance_key -> with_labels executed over a modelled span registry for 12 (thorough: 16) trees of <= 3 spans (contextual / explicit parent / explicit root, field-less spans, records after a child exists, exited spans) and up to two threads (each with its own current span; a record() through a span handle on another thread; several emissions per tree; thread_local! state of the code under analysis is per thread) with symbolic, possibly coinciding names, values and filter verdicts: the key reaching the inner recorder carries exactly the metric's labels plus the admitted fields of the current span and those its ancestors had when each descendant was created; the solver's tree is replayed through the real tracing registry, and each scenario's witness inputs are validated natively",
             note="tracing-subscriber's registry and dispatcher are modelled (span ids, parent links as the registry sets them, one Labels slot per span, the current span); field visiting (value formatting per type), concurrent (as opposed to alternating) use by several threads and spans closed while referenced are NOT covered; <= 1 field per span call, <= 2 metric labels"),
 "C19": dict(text="; a value recorded on another thread while a snapshot is in progress (interference at every bucket-operation boundary) appears in exactly one snapshot",
             note="fixed history shapes of <= 7 calls; abstract key identities; registry, IndexMap/HashMap/Mutex by their contracts; the bucket's operations are atomic steps (C05)"),
}
for k, v in MORE.items():
    CHECKS[k]["text"] += v.get("text", "")
    if "note" in v:
        CHECKS[k]["note"] = v["note"]
NA = {}
ids = [json.loads(l)["id"] for l in open(os.path.join(V, "properties.jsonl"))]
try:
    hooks = subprocess.run(["git", "-C", "/repo", "log", "--format=%H %s"], capture_output=True, text=True).stdout.splitlines()
    hook_commits = [l.split()[0] for l in hooks if " hook:" in l or l.split(" ", 1)[1].startswith("hook:")]
except Exception:
    hook_commits = []
m = {
 "version": 1,
 "setup_cmd": "./setup.sh",
 "hooks": {
  "guard": "--cfg metrics_verif",
  "enable": "RUSTFLAGS='--cfg metrics_verif' (set by the runner for Kani builds, MIR dumps and native replays that need a hook)",
  "baseline_off_cmd": "cd /repo && cargo test --workspace --no-fail-fast --offline",
  "source_commits": hook_commits,
  "add_only": True,
 },
 "engines": [
  {"name": "kani", "path": "lib/kani.py + kani/*", "serves_properties": sorted(k for k, v in CHECKS.items() if "kani" in v["engine"]),
   "kind_free_text": "Kani 0.68 proof harnesses (CBMC 6.11 + CaDiCaL) over the crates in /repo by path dependency; counterexamples replayed natively"},
  {"name": "mirsmt", "path": "lib/mirsmt/*", "serves_properties": sorted(k for k, v in CHECKS.items() if "mirsmt" in v["engine"]),
   "kind_free_text": "own MIR->SMT-LIB symbolic executor over the nightly MIR dump of /repo, z3 cross-checked with cvc5"},
 ],
 "checks": [],
 "not_applicable": [],
 "notes": "All checks: /verif/check <ID> --tier quick|thorough. Exit 2 = engine could not reach a verdict (never reported as success).",
}
for pid in ids:
    if pid in CHECKS:
        c = CHECKS[pid]
        m["checks"].append({
            "property_id": pid,
            "quick_cmd": f"./check {pid} --tier quick",
            "thorough_cmd": f"./check {pid} --tier thorough",
            "evidence_file": f"/verif/evidence/{pid}.json",
            "replay_cmd_template": f"./check {pid} --replay {{path}}",
            "engine": c["engine"],
            "level_claimed": {"category": "model_checking", "text": c["text"], "design_ref": c["ref"]},
            "level_note": c["note"],
            "technique": c["technique"],
        })
    else:
        m["not_applicable"].append({"property_id": pid, "reason": NA.get(pid, "check not built yet (work in progress; see DESIGN.md §4 for the plan)")})
json.dump(m, open(os.path.join(V, "MANIFEST.json"), "w"), indent=1)
print("checks:", [c["property_id"] for c in m["checks"]])

#!/bin/bash
# mirdump_path.sh <crate dir> <out name> : MIR of a crate outside /repo (the scenario harness)
set -e
mkdir -p /verif/.build/mir
cd "$1"
cp /repo/Cargo.lock . 2>/dev/null || true
touch src/lib.rs
CARGO_NET_OFFLINE=true CARGO_TARGET_DIR=/verif/.build/mir-target-h RUSTFLAGS="--cfg metrics_verif" cargo +nightly rustc --offline --lib -- -Zunpretty=mir -C debug-assertions=off -C overflow-checks=on > /verif/.build/mir/$2.mir.tmp 2> /verif/.build/mir/$2.err
mv /verif/.build/mir/$2.mir.tmp /verif/.build/mir/$2.mir
wc -l /verif/.build/mir/$2.mir

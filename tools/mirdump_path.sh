#!/bin/bash
# mirdump_path.sh <crate dir> <out name> [outdir] : MIR of a crate outside /repo (the scenario harness)
set -e
out=${3:-/verif/.build/work/adhoc/mir}
mkdir -p "$out" /verif/.build
cd "$1"
(
  flock 9
  cp /repo/Cargo.lock . 2>/dev/null || true
  touch src/lib.rs
  CARGO_NET_OFFLINE=true CARGO_TARGET_DIR=/verif/.build/mir-target-h RUSTFLAGS="--cfg metrics_verif" cargo +nightly rustc --offline --lib -- -Zunpretty=mir -C debug-assertions=off -C overflow-checks=on > "$out/$2.mir.tmp" 2> "$out/$2.err"
) 9> /verif/.build/mirdump-h.lock
mv "$out/$2.mir.tmp" "$out/$2.mir"
wc -l "$out/$2.mir"

#!/usr/bin/env python3
"""dev helper: ktry.py <group> [--stub] [--hooks] [--timeout N] h1 h2 ..."""
import sys, os
sys.path.insert(0, os.path.join(os.path.dirname(os.path.abspath(__file__)), "..", "lib"))
import kani, common
a = sys.argv[1:]
group = a.pop(0)
stub = "--stub" in a; hooks = "--hooks" in a
to = 300
if "--timeout" in a:
    i = a.index("--timeout"); to = int(a[i+1]); del a[i:i+2]
hs = [kani.H(x, "", "", to) for x in a if not x.startswith("--")]
obs = kani.run_group(group, hs, "quick", hooks=hooks, stubbing=stub)
for o in obs:
    print(f"{o.name:28s} {o.status:10s} {o.solver_s:7.1f}s {o.vacuity or ''} {o.detail[:300]}")

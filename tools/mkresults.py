#!/usr/bin/env python3
"""mkresults.py [results dir, default /tmp/mx/results] -> /verif/seeded/RESULTS.md
One row per seeded change: the outcome of the property's own quick check run against /repo + that change (tools/matrix.sh)."""
import os, sys, json, re, glob
res = sys.argv[1] if len(sys.argv) > 1 else "/tmp/mx/results"
rows, caught, total = [], 0, 0
per_prop = {}
for d in sorted(glob.glob("/verif/seeded/C*-*")):
    seed = os.path.basename(d)
    pid = seed.split("-")[0]
    meta = json.load(open(os.path.join(d, "meta.json")))
    title = re.sub(r"^Change [A-Z]\s*[—-]\s*", "", meta.get("title", "")).strip()
    tag = f"{seed}__{pid}"
    rcp = os.path.join(res, tag + ".rc")
    if not os.path.exists(rcp):
        rows.append((seed, title, "not run", ""))
        continue
    rc = int(open(rcp).read().strip() or 9)
    out = open(os.path.join(res, tag + ".out"), errors="replace").read()
    viol = re.findall(r"^VIOLATION property=\S+ replay=(\S+)", out, re.M)
    errs = re.findall(r"^ENGINE-ERROR property=\S+ (.*)$", out, re.M)
    total += 1
    pp = per_prop.setdefault(pid, [0, 0])
    pp[1] += 1
    if rc == 1 and viol:
        caught += 1
        pp[0] += 1
        names = sorted({os.path.basename(v).rsplit(".", 1)[0] for v in viol})
        what = "; ".join(names[:3]) + (f" (+{len(names) - 3} more)" if len(names) > 3 else "")
        rows.append((seed, title, "**caught** (exit 1, reproduced natively)", what))
    elif rc == 0:
        rows.append((seed, title, "missed (exit 0)", ""))
    elif rc == 2:
        rows.append((seed, title, "not decided (exit 2)", (errs[0][:160] if errs else "")))
    else:
        rows.append((seed, title, f"exit {rc}", (errs[0][:160] if errs else out[-160:].replace("\n", " "))))
with open("/verif/seeded/RESULTS.md", "w") as f:
    f.write("# Seeded breaking changes against the property's own quick check\n\n")
    f.write("Produced by `tools/matrix_all.sh` + `tools/mkresults.py`. Each row: `/repo` + the change (in a private mount namespace), "
            "`./check <ID> --tier quick`. *caught* = exit 1 with a `VIOLATION` line whose counterexample reproduced natively on the changed tree; "
            "*not decided* = exit 2 (the engine could not execute the changed code, a scenario became vacuous, or a counterexample did not reproduce); "
            "*missed* = exit 0.\n\n")
    f.write(f"Caught: {caught} of {total}.\n\n")
    f.write("| property | caught / seeded |\n|---|---|\n")
    for pid in sorted(per_prop):
        f.write(f"| {pid} | {per_prop[pid][0]} / {per_prop[pid][1]} |\n")
    f.write("\n| seed | what the change does | outcome | obligations that flagged it / reason |\n|---|---|---|---|\n")
    for seed, title, outc, what in rows:
        f.write(f"| {seed} | {title[:200].replace('|', '/')} | {outc} | {what.replace('|', '/')} |\n")
print(f"caught {caught} of {total}")
for pid in sorted(per_prop):
    print(pid, per_prop[pid])

#!/usr/bin/env python3
"""Build a cargo *directory source* (/verif/.build/vendor) out of the crates that are already
unpacked in ~/.cargo/registry/src/*, so that Kani's and the nightly's cargo (which use a different
registry hash dir than the repo's cargo 1.74) can resolve /repo's locked dependencies offline.
Nothing is downloaded; every file is a symlink into the registry."""
import os, re, sys, json, glob, shutil
LOCK = sys.argv[1] if len(sys.argv) > 1 else "/repo/Cargo.lock"
OUT = sys.argv[2] if len(sys.argv) > 2 else "/verif/.build/vendor"
srcs = sorted(glob.glob(os.path.expanduser("~/.cargo/registry/src/*")), key=lambda p: ("d8f576" not in p, p))
txt = open(LOCK).read()
pk = re.findall(r'\[\[package\]\]\nname = "([^"]+)"\nversion = "([^"]+)"\n(?:source = "([^"]+)"\n)?(?:checksum = "([^"]+)"\n)?', txt)
os.makedirs(OUT, exist_ok=True)
n = miss = 0
for name, ver, source, cks in pk:
    if not source or not source.startswith("registry+"):
        continue
    d = None
    for s in srcs:
        c = os.path.join(s, f"{name}-{ver}")
        if os.path.isdir(c):
            d = c; break
    if d is None:
        miss += 1
        print("missing", name, ver, file=sys.stderr)
        continue
    o = os.path.join(OUT, f"{name}-{ver}")
    if os.path.isdir(o) and os.path.exists(os.path.join(o, ".cargo-checksum.json")):
        n += 1; continue
    shutil.rmtree(o, ignore_errors=True)
    os.makedirs(o)
    for e in os.listdir(d):
        if e in (".cargo-ok", ".cargo-checksum.json"): continue
        os.symlink(os.path.join(d, e), os.path.join(o, e))
    json.dump({"files": {}, "package": cks}, open(os.path.join(o, ".cargo-checksum.json"), "w"))
    n += 1
print(f"vendored {n} crates into {OUT}, missing {miss}")
sys.exit(1 if miss else 0)

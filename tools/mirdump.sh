#!/bin/bash
# mirdump.sh <crate-dir-name> [hooks|nohooks] [outdir]  -> <outdir>/<crate>.mir   (regenerated from /repo's working tree)
# The cargo target dir with the compiled dependencies is shared; touch + rustc run under a lock so that concurrent
# checks each get the MIR of a compilation they triggered themselves.
set -e
c=$1
out=${3:-/verif/.build/work/adhoc/mir}
mkdir -p "$out" /verif/.build
cd /repo/$c
flags=""
if [ "$2" = "hooks" ]; then flags="--cfg metrics_verif"; fi
(
  flock 9
  touch src/lib.rs
  CARGO_NET_OFFLINE=true CARGO_TARGET_DIR=/verif/.build/mir-target RUSTFLAGS="$flags" cargo +nightly --config /verif/.build/cargo-config.toml rustc --offline --lib -- -Zunpretty=mir -C debug-assertions=off -C overflow-checks=on > "$out/$c.mir.tmp" 2> "$out/$c.err"
) 9> /verif/.build/mirdump.lock
mv "$out/$c.mir.tmp" "$out/$c.mir"
wc -l "$out/$c.mir"

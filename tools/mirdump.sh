#!/bin/bash
# mirdump.sh <crate-dir-name> [hooks]  -> /verif/.build/mir/<crate>.mir   (regenerated from /repo's working tree)
set -e
c=$1
mkdir -p /verif/.build/mir
cd /repo/$c
flags=""
if [ "$2" = "hooks" ]; then flags="--cfg metrics_verif"; fi
touch src/lib.rs
CARGO_NET_OFFLINE=true CARGO_TARGET_DIR=/verif/.build/mir-target RUSTFLAGS="$flags" cargo +nightly --config /verif/.build/cargo-config.toml rustc --offline --lib -- -Zunpretty=mir -C debug-assertions=off -C overflow-checks=on > /verif/.build/mir/$c.mir.tmp 2> /verif/.build/mir/$c.err
mv /verif/.build/mir/$c.mir.tmp /verif/.build/mir/$c.mir
wc -l /verif/.build/mir/$c.mir

#!/bin/bash
# matrix_all.sh <parallelism> <check ids...> : run every seeded change of each listed property against that property's check
par=$1; shift
jobs=()
for chk in "$@"; do
  for d in /verif/seeded/$chk-*; do
    [ -d "$d" ] && jobs+=("$(basename $d) $chk")
  done
done
printf '%s\n' "${jobs[@]}" | xargs -P $par -L 1 /verif/tools/matrix.sh

#!/usr/bin/env python3
import json, sys
pid = sys.argv[1]
for l in open('/verif/properties.jsonl'):
    p = json.loads(l)
    if p['id'] == pid:
        break
print(f"""You are helping test a verification effort for the Rust project metrics-rs/metrics (a metrics facade: counter/gauge/histogram macros, Recorder trait, utility storage, Prometheus/DogStatsD/TCP exporters).

You have your own scratch git worktree of the repository at /tmp/mut/{pid} (work ONLY there; never touch /repo or /verif, do not read /verif). The sandbox is offline: use `cargo test --offline` / `cargo build --offline` (the toolchain is pinned by rust-toolchain.toml; all dependencies are already cached). The existing test suite is run with: `cd /tmp/mut/{pid} && cargo test --workspace --no-fail-fast --offline` (about 1-3 minutes the first time; you may restrict to the affected crate with -p while iterating, but run the whole workspace at the end).

Here is a semantic property of the code base that should always hold:

  Title: {p['title']}
  Statement: {p['statement']}
  It must hold over: {p['quantifier']['text']}

Your task: produce TWO different, independent, realistic source changes (call them A and B) to the library code (not to tests) that each BREAK this property while the workspace still compiles and the existing test suite still passes entirely. Think of the kind of regression a plausible refactoring, optimisation or "simplification" by a maintainer could introduce. Prefer changes that need something SPECIFIC to manifest — a particular interleaving, a multi-step sequence of operations, an unusual input or boundary value, a rarely used construction path, or two cooperating sites that each look fine alone — NOT changes that ordinary use would expose at once. A and B should break different aspects/mechanisms of the property if possible.

For each change X in (A, B):
 1. Start from a clean worktree (`git -C /tmp/mut/{pid} checkout -- . && git -C /tmp/mut/{pid} clean -fdq -e target`), make the change, and save it as a patch: `git -C /tmp/mut/{pid} diff > /tmp/mut/out-{pid}/X.patch.diff` (library source only, no test files in the patch).
 2. Write a demonstration: a Rust test file or small program (saved as /tmp/mut/out-{pid}/X.demo.rs together with exact instructions in /tmp/mut/out-{pid}/X.README.md on where to place it — e.g. as `<crate>/tests/demo_x.rs` — and the command to run it) that FAILS with the change applied and PASSES on the unchanged code. If the failure needs a particular thread interleaving, make the demonstration deterministic (e.g. with barriers/sleeps/hooks placed in the test, many iterations, or a description of the schedule) as far as possible, and say how reliable it is.
 3. Verify yourself: with the change applied the whole existing suite passes (`cargo test --workspace --no-fail-fast --offline`) and the demo fails; with the change reverted the demo passes. Record the commands and outcomes in X.README.md, plus one paragraph on what the change breaks and what is needed for it to manifest.
Finally leave the worktree clean (git checkout -- . ; remove any demo test files you placed in it) and reply with a brief summary of A and B (files touched, what breaks, what it needs to manifest, how you verified).""")

#!/bin/bash
# runall.sh <parallelism> <tier> [ids...] : run checks on /repo as it is; logs in .build/logs/<ID>.<tier>.log
par=$1; tier=$2; shift 2
ids=("$@"); [ ${#ids[@]} -eq 0 ] && ids=(C01 C02 C03 C04 C05 C06 C07 C08 C09 C10 C11 C12 C13 C14 C15 C16 C17 C18 C19 C20)
cd /verif; mkdir -p .build/logs
printf '%s\n' "${ids[@]}" | xargs -P $par -I{} bash -c 's=$(date +%s); ./check {} --tier '$tier' > .build/logs/{}.'$tier'.log 2>&1; rc=$?; echo "{} rc=$rc $(( $(date +%s)-s ))s $(grep -c ^VIOLATION .build/logs/{}.'$tier'.log) viol $(grep -c ^KNOWN-FINDING .build/logs/{}.'$tier'.log) known"'

#!/bin/bash
# matrix.sh <seeded id, e.g. C05-A | none> <check id> [tier]
# Runs one check against /repo + one seeded change WITHOUT touching /repo or /verif: a scratch worktree and a scratch
# copy of /verif are bind-mounted over /repo and /verif inside a private mount namespace, so every hard-coded path
# keeps working and several of these can run side by side. Results: /tmp/mx/results/<seed>__<check>.{out,rc,json}
set -u
seed=$1; chk=$2; tier=${3:-quick}
mx=/tmp/mx; tag=${seed}__${chk}
mkdir -p $mx/results
r=$mx/repo-$tag; v=$mx/verif-$tag
rm -rf $r $v; git -C /repo worktree prune
git -C /repo worktree add -q --detach $r HEAD || exit 9
if [ "$seed" != none ]; then
  if ! git -C $r apply /verif/seeded/$seed/patch.diff 2>$mx/results/$tag.apply; then
    if ! git -C $r apply -3 /verif/seeded/$seed/patch.diff 2>>$mx/results/$tag.apply; then
      echo "APPLY-FAILED" > $mx/results/$tag.out; echo 8 > $mx/results/$tag.rc
      git -C /repo worktree remove --force $r; exit 8
    fi
  fi
fi
mkdir -p $v
rsync -a --exclude .git --exclude '.build/work' --exclude '.build/kani-*' --exclude '.build/replay-*' --exclude .build/smt --exclude .build/mir --exclude '.build/logs' --exclude 'evidence/*' /verif/ $v/
mkdir -p $v/.build/work; [ -d /verif/.build/work/$chk ] && rsync -a --exclude smt --exclude logs /verif/.build/work/$chk $v/.build/work/
mkdir -p $v/evidence
unshare -m bash -c "mount --bind $r /repo && mount --bind $v /verif && cd /verif && ulimit -v 40000000 && VERIF_SCRATCH=/tmp/mx/replay-$tag VERIF_TIER=$tier timeout 3000 ./check $chk --tier $tier" > $mx/results/$tag.out 2>&1
rc=$?
echo $rc > $mx/results/$tag.rc
cp $v/evidence/$chk.json $mx/results/$tag.json 2>/dev/null
git -C /repo worktree remove --force $r
rm -rf $v /tmp/mx/replay-$tag
echo "$tag rc=$rc $(grep -c '^VIOLATION' $mx/results/$tag.out) violation lines"

#!/usr/bin/env python3
"""insert_results.py: put the summary of seeded/RESULTS.md into DESIGN.md §10 (between the RESULTS markers)"""
import re
r = open('/verif/seeded/RESULTS.md').read()
caught = re.search(r"Caught: (\d+) of (\d+)\.", r)
tab = re.search(r"(\| property \| caught / seeded \|\n\|---\|---\|\n(?:\|.*\|\n)+)", r).group(1)
rows = [l for l in r.split("\n") if l.startswith("| C") and ("missed" in l or "not decided" in l or "exit " in l and "caught" not in l)]
txt = (f"Result of the last full run (`seeded/RESULTS.md` has one row per change with the obligations that flagged it): "
       f"**{caught.group(1)} of {caught.group(2)} changes caught.**\n\n" + tab + "\nNot caught:\n\n" +
       "\n".join("* " + " — ".join(c.strip() for c in l.strip("|").split("|")[:3]) for l in rows) + "\n")
d = open('/verif/DESIGN.md').read()
if "@@RESULTS@@" in d:
    d = d.replace("@@RESULTS@@", "<!-- RESULTS -->\n" + txt + "<!-- /RESULTS -->")
else:
    d = re.sub(r"<!-- RESULTS -->.*?<!-- /RESULTS -->", lambda m: "<!-- RESULTS -->\n" + txt + "<!-- /RESULTS -->", d, flags=re.S)
open('/verif/DESIGN.md', 'w').write(d)
print(txt[:1500])

#!/bin/bash
# usage: krun.sh <crate-dir> <target-dir> <timeout-s> <mem-kb> <log> -- <cargo kani args>
dir=$1; tgt=$2; to=$3; mem=$4; log=$5; shift 6
cd "$dir" || exit 3
ulimit -v "$mem"
exec timeout "$to" cargo kani --target-dir "$tgt" "$@" > "$log" 2>&1

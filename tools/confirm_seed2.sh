#!/bin/bash
# confirm_seed2.sh <root e.g. /tmp/mut2> <PROP> <X> : confirm an agent-proposed change in its scratch worktree
# (suite passes with the patch, demo fails with it and passes without) and store it under /verif/seeded/<PROP>-<X>.
ROOT=$1; P=$2; X=$3; x=$(echo $X | tr A-Z a-z)
WT=$ROOT/$P; OUT=$ROOT/out-$P; DEST=/verif/seeded/$P-$X
LOG=$ROOT/confirm-$P-$X.log
CRATE=$(grep -m1 -iE '^crate:' $OUT/$X.README.md | sed -E 's/^crate:\s*//I; s/`//g; s/\s.*$//')
[ -z "$CRATE" ] && { echo "$P-$X: no crate line in README"; exit 1; }
cd $WT || exit 9
git checkout -q -- . && git clean -fdq -e target
git apply $OUT/$X.patch.diff || { echo "$P-$X: patch does not apply"; exit 1; }
cargo test -j 6 --workspace --no-fail-fast --offline > $LOG 2>&1; suite_rc=$?
npass=$(grep -E "^test result: ok" $LOG | awk '{s+=$4} END {print s}')
nfail=$(grep -E "^test result: FAILED" $LOG | wc -l)
mkdir -p $CRATE/tests && cp $OUT/$X.demo.rs $CRATE/tests/demo_$x.rs
cargo test -j 6 --offline -p $CRATE --test demo_$x >> $LOG 2>&1; demo_with=$?
git apply -R $OUT/$X.patch.diff
cargo test -j 6 --offline -p $CRATE --test demo_$x >> $LOG 2>&1; demo_without=$?
rm -f $CRATE/tests/demo_$x.rs; git checkout -q -- . ; git clean -fdq -e target
echo "$P-$X suite_rc=$suite_rc passed=$npass failed_bins=$nfail demo_with_patch_rc=$demo_with demo_without_patch_rc=$demo_without"
if [ $suite_rc -eq 0 ] && [ $demo_with -ne 0 ] && [ $demo_without -eq 0 ]; then
  mkdir -p $DEST && cp $OUT/$X.patch.diff $DEST/patch.diff && cp $OUT/$X.demo.rs $DEST/demo.rs && cp $OUT/$X.README.md $DEST/README.md
  python3 - "$DEST" "$P" "$X" "$CRATE" "$npass" "$demo_with" "$ROOT" <<'PY'
import sys, json, re
dest, p, x, crate, npass, dw, root = sys.argv[1:8]
readme = open(dest + "/README.md").read()
title = readme.strip().split("\n")[0].lstrip("# ").strip()
m = re.search(r"^\**Needs:?\**:?\s*(.*?)(?:\n\s*\n|\Z)", readme, re.S | re.M)
needs = " ".join(m.group(1).split()) if m else ""
json.dump({"property": p, "variant": x, "title": title, "breaks": p, "needs": needs,
           "demo_placement": f"{crate}/tests/demo_{x.lower()}.rs", "demo_cmd": f"cargo test --offline -p {crate} --test demo_{x.lower()}",
           "confirmed": {"suite_with_patch": f"exit 0, {npass} tests passed", "demo_with_patch": f"exit {dw} (fails)", "demo_without_patch": "exit 0 (passes)"},
           "confirmed_by": f"tools/confirm_seed2.sh in scratch worktree {root}/{p} (removed afterwards)"}, open(dest + "/meta.json", "w"), indent=1)
PY
  echo "$P-$X CONFIRMED"
else
  echo "$P-$X NOT confirmed (see $LOG)"
fi

#!/bin/bash
# confirm_seed_incrate.sh <PROP> <X> <crate> <file-to-append-to> <test filter>: like confirm_seed.sh for demos that are appended to a source file
P=$1; X=$2; CRATE=$3; FILE=$4; FILTER=$5
WT=/tmp/mut/$P; OUT=/tmp/mut/out-$P; DEST=/verif/seeded/$P-$X; LOG=/tmp/mut/confirm-$P-$X.log
cd $WT || exit 9
git checkout -q -- . && git clean -fdq -e target
git apply $OUT/$X.patch.diff || { echo "$P-$X: patch does not apply"; exit 1; }
cargo test --workspace --no-fail-fast --offline > $LOG 2>&1; suite_rc=$?
npass=$(grep -E "^test result: ok" $LOG | awk '{s+=$4} END {print s}')
cat $OUT/$X.demo.rs >> $FILE
cargo test --offline -p $CRATE --lib $FILTER -- --test-threads=1 >> $LOG 2>&1; demo_with=$?
git checkout -q -- . ; cat $OUT/$X.demo.rs >> $FILE
cargo test --offline -p $CRATE --lib $FILTER -- --test-threads=1 >> $LOG 2>&1; demo_without=$?
git checkout -q -- . ; git clean -fdq -e target
echo "$P-$X suite_rc=$suite_rc passed=$npass demo_with_patch_rc=$demo_with demo_without_patch_rc=$demo_without"
if [ $suite_rc -eq 0 ] && [ $demo_with -ne 0 ] && [ $demo_without -eq 0 ]; then
  mkdir -p $DEST && cp $OUT/$X.patch.diff $DEST/patch.diff && cp $OUT/$X.demo.rs $DEST/demo.rs && cp $OUT/$X.README.md $DEST/README.md
  cat > $DEST/meta.json <<META
{"property": "$P", "variant": "$X", "demo_placement": "appended to $FILE (in-crate #[cfg(test)] module)", "demo_cmd": "cargo test --offline -p $CRATE --lib $FILTER -- --test-threads=1",
 "confirmed": {"suite_with_patch": "exit 0, $npass tests passed", "demo_with_patch": "exit $demo_with (fails)", "demo_without_patch": "exit 0 (passes)"},
 "confirmed_by": "tools/confirm_seed_incrate.sh in scratch worktree /tmp/mut/$P (removed afterwards)"}
META
  echo "$P-$X CONFIRMED"
else
  echo "$P-$X NOT confirmed (see $LOG)"
fi

#!/usr/bin/env python3
"""agent_prompt2.py <PID> <round-dir e.g. /tmp/mut2> <X> <Y> [focus text]  -- prompt for an independent sub-agent (round 2+):
only the property text (+ optionally which clause of it to aim at) and a scratch worktree."""
import json, sys
pid, root, X, Y = sys.argv[1:5]
focus = sys.argv[5] if len(sys.argv) > 5 else ""
for l in open('/verif/properties.jsonl'):
    p = json.loads(l)
    if p['id'] == pid:
        break
wt = f"{root}/{pid}"; out = f"{root}/out-{pid}"
foc = f"\nAim in particular at this part of the property (both changes should break something it says; read the code that implements it first): {focus}\n" if focus else ""
print(f"""You are helping test a verification effort for the Rust project metrics-rs/metrics (a metrics facade: counter/gauge/histogram macros, Recorder trait, utility storage, Prometheus/DogStatsD/TCP exporters).

You have your own scratch git worktree of the repository at {wt} (work ONLY there and in {out}; never touch /repo or /verif, do not read /verif). The sandbox is offline: use `cargo test --offline` / `cargo build --offline` (the toolchain is pinned by rust-toolchain.toml; all dependencies are already cached). The existing test suite is run with: `cd {wt} && cargo test --workspace --no-fail-fast --offline` (about 1-3 minutes the first time; you may restrict to the affected crate with -p while iterating, but run the whole workspace at the end). Other jobs share this machine: do not use more than 4 parallel cargo jobs (`-j 4`).

Here is a semantic property of the code base that should always hold:

  Title: {p['title']}
  Statement: {p['statement']}
  It must hold over: {p['quantifier']['text']}
{foc}
Your task: produce TWO different, independent, realistic source changes (call them {X} and {Y}) to the library code (not to tests) that each BREAK this property while the workspace still compiles and the existing test suite still passes entirely. Think of the kind of regression a plausible refactoring, optimisation, caching or "simplification" by a maintainer could introduce. The changes MUST need something SPECIFIC to manifest — a particular interleaving, a crash or fault at a particular point, a multi-step sequence of operations, an unusual input or boundary value, a rarely used construction path, or two cooperating sites that each look fine alone — NOT changes that ordinary use would expose at once. {X} and {Y} should break different aspects/mechanisms of the property.

For each change X in ({X}, {Y}):
 1. Start from a clean worktree (`git -C {wt} checkout -- . && git -C {wt} clean -fdq -e target`), make the change, and save it as a patch: `mkdir -p {out} && git -C {wt} diff > {out}/X.patch.diff` (library source only, no test files in the patch).
 2. Write a demonstration: a Rust integration-test file (saved as {out}/X.demo.rs; it will be placed as `<crate>/tests/demo_x.rs` (x lower case) of the crate you name and run with `cargo test --offline -p <crate> --test demo_x`; it may only use the crate's public API and its existing dev-dependencies) that FAILS with the change applied and PASSES on the unchanged code. If the failure needs a particular thread interleaving, make the demonstration as deterministic as possible (barriers, gates inside recorder doubles / Drop impls / closures, many iterations) and say how reliable it is.
 3. Verify yourself: with the change applied the whole existing suite passes (`cargo test --workspace --no-fail-fast --offline`) and the demo fails; with the change reverted the demo passes. Record the commands and outcomes in {out}/X.README.md, starting with a title line `# Change X — <one line>`, then the crate name for the demo on a line `crate: <name>`, then one paragraph on what the change breaks and one paragraph `Needs:` on exactly what is needed for it to manifest.
Finally leave the worktree clean (git checkout -- . ; remove any demo test files you placed in it) and reply with a brief summary of {X} and {Y} (files touched, crate for the demo, what breaks, what it needs to manifest, how you verified).""")

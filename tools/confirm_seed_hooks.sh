#!/bin/bash
# confirm_seed.sh <PROP> <X> <crate> : confirm an agent-proposed mutation in its scratch worktree
# (suite passes with the patch, demo fails with it and passes without) and store it under /verif/seeded.
P=$1; X=$2; CRATE=$3; x=$(echo $X | tr A-Z a-z)
WT=/tmp/mut/$P; OUT=/tmp/mut/out-$P; DEST=/verif/seeded/$P-$X
LOG=/tmp/mut/confirm-$P-$X.log
cd $WT || exit 9
git checkout -q -- . && git clean -fdq -e target
git apply $OUT/$X.patch.diff || { echo "$P-$X: patch does not apply"; exit 1; }
cargo test --workspace --no-fail-fast --offline > $LOG 2>&1; suite_rc=$?
npass=$(grep -E "^test result: ok" $LOG | awk '{s+=$4} END {print s}')
nfail=$(grep -E "^test result: FAILED" $LOG | wc -l)
mkdir -p $CRATE/tests && cp $OUT/$X.demo.rs $CRATE/tests/demo_$x.rs
RUSTFLAGS="--cfg metrics_verif" cargo test --offline -p $CRATE --test demo_$x --target-dir target/verif-demo >> $LOG 2>&1; demo_with=$?
git apply -R $OUT/$X.patch.diff
RUSTFLAGS="--cfg metrics_verif" cargo test --offline -p $CRATE --test demo_$x --target-dir target/verif-demo >> $LOG 2>&1; demo_without=$?
rm -f $CRATE/tests/demo_$x.rs; git checkout -q -- . ; git clean -fdq -e target
echo "$P-$X suite_rc=$suite_rc passed=$npass failed_bins=$nfail demo_with_patch_rc=$demo_with demo_without_patch_rc=$demo_without"
if [ $suite_rc -eq 0 ] && [ $demo_with -ne 0 ] && [ $demo_without -eq 0 ]; then
  mkdir -p $DEST && cp $OUT/$X.patch.diff $DEST/patch.diff && cp $OUT/$X.demo.rs $DEST/demo.rs && cp $OUT/$X.README.md $DEST/README.md
  cat > $DEST/meta.json <<META
{"property": "$P", "variant": "$X", "demo_placement": "$CRATE/tests/demo_$x.rs", "demo_cmd": "cargo test --offline -p $CRATE --test demo_$x",
 "confirmed": {"suite_with_patch": "exit 0, $npass tests passed", "demo_with_patch": "exit $demo_with (fails)", "demo_without_patch": "exit 0 (passes)"},
 "confirmed_by": "tools/confirm_seed.sh in scratch worktree /tmp/mut/$P (removed afterwards)"}
META
  echo "$P-$X CONFIRMED"
else
  echo "$P-$X NOT confirmed (see $LOG)"
fi
